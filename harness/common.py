"""Shared machinery: overlay build of /repo's working tree, TLC runner, exact
number encoding, evidence / replay / known-findings handling.

No verdict about dadi is computed here or in any driver: Python generates
inputs, records what the real code did, and parses what TLC decided.
"""
import json, os, re, shutil, subprocess, sys, tempfile, time, hashlib, glob, sysconfig
from fractions import Fraction

VERIF = os.path.dirname(os.path.dirname(os.path.abspath(__file__)))
REPO = os.environ.get('VERIF_REPO', '/repo')
SPEC = os.path.join(VERIF, 'spec')
CLASSES = os.path.join(VERIF, 'build', 'classes')
TLA_CP = '/opt/veriftools/tla/tla2tools.jar:/opt/veriftools/tla/CommunityModules-deps.jar'
SCRATCH_ROOT = os.environ.get('VERIF_SCRATCH', '/var/tmp')
PY = '/venv/bin/python'


class MachineryError(Exception):
    """Something in the verification machinery failed (exit 2, never a pass)."""


# --------------------------------------------------------------------------
# numbers
# --------------------------------------------------------------------------
def rat(x):
    """Exact canonical rational string of a float / int / Fraction."""
    if isinstance(x, str):
        return x
    if isinstance(x, bool):
        raise TypeError('bool is not a number here')
    if isinstance(x, int):
        return str(x)
    if isinstance(x, Fraction):
        f = x
    else:
        x = float(x)
        if x != x:
            return 'nan'
        if x in (float('inf'), float('-inf')):
            return 'inf' if x > 0 else '-inf'
        f = Fraction(x)
    return str(f.numerator) if f.denominator == 1 else '%d/%d' % (f.numerator, f.denominator)


def rats(a):
    """Nested lists of exact rational strings from a numpy array / nested list."""
    if hasattr(a, 'tolist'):
        a = a.tolist()
    if isinstance(a, (list, tuple)):
        return [rats(v) for v in a]
    return rat(a)


def frac(s):
    return Fraction(s)


# --------------------------------------------------------------------------
# overlay build
# --------------------------------------------------------------------------
_EXT = sysconfig.get_config_var('EXT_SUFFIX')


def _inc():
    import numpy
    return ['-I' + sysconfig.get_paths()['include'], '-I' + numpy.get_include()]


def build_overlay(root=None, repo=REPO, verbose=False):
    """Copy <repo>/dadi (python + hand-written C + the cython-generated glue) to a
    scratch directory and rebuild the three compiled extensions and a plain ctypes
    kernel library from the *current* C sources.  Returns the overlay root (to
    be put first on sys.path / PYTHONPATH)."""
    t0 = time.time()
    root = root or tempfile.mkdtemp(prefix='dadi-verif-', dir=SCRATCH_ROOT)
    dst = os.path.join(root, 'dadi')
    src = os.path.join(repo, 'dadi')

    def ignore(d, names):
        out = []
        rel = os.path.relpath(d, src)
        for n in names:
            if n == '__pycache__' or n.endswith('.pyc'):
                out.append(n)
            elif rel in ('.',) and n in ('cuda',):
                pass
            elif rel.startswith(('Triallele', 'TwoLocus')) and n.endswith('.c'):
                out.append(n)          # 200k lines of generated C, prebuilt .so kept
            elif rel in ('.', 'DFE') and n.endswith('.so'):
                out.append(n)          # rebuilt below
        return out
    shutil.copytree(src, dst, ignore=ignore, symlinks=True)
    inc = _inc() + ['-I' + dst]
    cflags = ['-O2', '-fPIC', '-w', '-fno-strict-aliasing']
    jobs = []
    objs = {}

    def cc(cfile, tag=''):
        o = os.path.join(root, 'obj', tag + os.path.basename(cfile)[:-2] + '.o')
        os.makedirs(os.path.dirname(o), exist_ok=True)
        jobs.append((subprocess.Popen(['gcc'] + cflags + inc + ['-c', cfile, '-o', o],
                                      stdout=subprocess.PIPE, stderr=subprocess.STDOUT), cfile))
        objs[cfile] = o
        return o
    kern = [os.path.join(dst, f) for f in ('integration1D.c', 'integration2D.c', 'integration3D.c',
                                           'integration4D.c', 'integration5D.c', 'integration_shared.c', 'tridiag.c')]
    have_glue = all(os.path.exists(os.path.join(dst, f)) for f in ('integration_c.c', 'tridiag_cython.c', 'DFE/PDFs_cython.c'))
    ko = [cc(k) for k in kern]
    glue = {}
    if have_glue:
        glue['integration_c'] = cc(os.path.join(dst, 'integration_c.c'))
        glue['tridiag_cython'] = cc(os.path.join(dst, 'tridiag_cython.c'))
        glue['DFE/PDFs_cython'] = cc(os.path.join(dst, 'DFE', 'PDFs_cython.c'))
    for p, cfile in jobs:
        out = p.communicate()[0]
        if p.returncode != 0:
            raise MachineryError('gcc failed on %s:\n%s' % (cfile, out.decode(errors='replace')))
    links = []

    def ld(outp, objects):
        links.append((subprocess.Popen(['gcc', '-shared', '-o', outp] + objects + ['-lm'],
                                       stdout=subprocess.PIPE, stderr=subprocess.STDOUT), outp))
    ld(os.path.join(root, 'libkernels.so'), ko)
    if have_glue:
        ld(os.path.join(dst, 'integration_c' + _EXT), [glue['integration_c']] + ko)
        ld(os.path.join(dst, 'tridiag_cython' + _EXT), [glue['tridiag_cython'], objs[os.path.join(dst, 'tridiag.c')]])
        ld(os.path.join(dst, 'DFE', 'PDFs_cython' + _EXT), [glue['DFE/PDFs_cython']])
    else:
        # fall back to the prebuilt extension modules (recorded in evidence by callers)
        for f in ('integration_c', 'tridiag_cython', 'DFE/PDFs_cython'):
            s = os.path.join(src, f + _EXT)
            if os.path.exists(s):
                shutil.copy(s, os.path.join(dst, f + _EXT))
    for p, outp in links:
        out = p.communicate()[0]
        if p.returncode != 0:
            raise MachineryError('link failed for %s:\n%s' % (outp, out.decode(errors='replace')))
    shutil.rmtree(os.path.join(root, 'obj'), ignore_errors=True)
    with open(os.path.join(root, 'OVERLAY.json'), 'w') as f:
        json.dump({'repo': repo, 'glue_rebuilt': have_glue, 'build_s': round(time.time() - t0, 2)}, f)
    if verbose:
        print('overlay built at %s in %.1fs (glue rebuilt: %s)' % (root, time.time() - t0, have_glue), flush=True)
    return root


def remove_overlay(root):
    if root and os.path.isdir(root) and os.path.basename(root).startswith('dadi-verif-'):
        shutil.rmtree(root, ignore_errors=True)


def overlay_env(root, extra=None):
    env = dict(os.environ)
    env['PYTHONPATH'] = root + os.pathsep + os.path.join(VERIF) + (os.pathsep + env['PYTHONPATH'] if env.get('PYTHONPATH') else '')
    env.setdefault('PYTHONHASHSEED', '0')
    env['DADI_VERIF_OVERLAY'] = root
    env['OMP_NUM_THREADS'] = '1'
    env['OPENBLAS_NUM_THREADS'] = '1'
    if extra:
        env.update(extra)
    return env


# --------------------------------------------------------------------------
# TLC
# --------------------------------------------------------------------------
_STATES_RE = re.compile(r'(\d+) states generated, (\d+) distinct states found, (\d+) states left on queue')


class TLCResult:
    def __init__(self):
        self.states = 0          # distinct states
        self.transitions = 0     # states generated (= transitions examined incl. init)
        self.prints = []         # parsed PrintT tuples (python objects)
        self.ok = False
        self.violation = None    # text of an invariant/property violation, if any
        self.out = ''
        self.wall = 0.0
        self.cmd = ''


def _parse_tla_value(s):
    """Parse the subset of TLA+ value syntax TLC prints: tuples <<..>>, sets {..},
    strings, ints, booleans, records [a |-> v, ...]."""
    pos = 0
    n = len(s)

    def ws():
        nonlocal pos
        while pos < n and s[pos] in ' \t\r\n':
            pos += 1

    def val():
        nonlocal pos
        ws()
        if s.startswith('<<', pos):
            pos += 2
            items = seq('>>')
            return items
        if s[pos] == '{':
            pos += 1
            items = seq('}')
            return {'__set__': items}
        if s[pos] == '[':
            pos += 1
            rec = {}
            ws()
            if s[pos] == ']':
                pos += 1
                return rec
            while True:
                ws()
                m = re.compile(r'[A-Za-z_0-9]+').match(s, pos)
                key = m.group(0)
                pos = m.end()
                ws()
                assert s.startswith('|->', pos), s[pos:pos + 20]
                pos += 3
                rec[key] = val()
                ws()
                if s[pos] == ',':
                    pos += 1
                    continue
                assert s[pos] == ']'
                pos += 1
                return rec
        if s[pos] == '"':
            j = pos + 1
            buf = []
            while s[j] != '"':
                if s[j] == '\\':
                    j += 1
                buf.append(s[j])
                j += 1
            pos = j + 1
            return ''.join(buf)
        m = re.compile(r'-?\d+').match(s, pos)
        if m:
            pos = m.end()
            return int(m.group(0))
        m = re.compile(r'TRUE|FALSE').match(s, pos)
        if m:
            pos = m.end()
            return m.group(0) == 'TRUE'
        m = re.compile(r'[A-Za-z_][A-Za-z_0-9]*').match(s, pos)
        if m:
            pos = m.end()
            return {'__mv__': m.group(0)}
        raise ValueError('cannot parse TLA value at %r' % s[pos:pos + 40])

    def seq(close):
        nonlocal pos
        items = []
        ws()
        if s.startswith(close, pos):
            pos += len(close)
            return items
        while True:
            items.append(val())
            ws()
            if s[pos] == ',':
                pos += 1
                continue
            assert s.startswith(close, pos), s[pos:pos + 20]
            pos += len(close)
            return items
    v = val()
    return v


def _extract_prints(out):
    """PrintT output lines start with << at column 0; a value may span lines."""
    res = []
    lines = out.split('\n')
    i = 0
    while i < len(lines):
        ln = lines[i]
        if ln.startswith('<<"') or ln.startswith('<< "'):
            buf = ln
            depth = buf.count('<<') - buf.count('>>')
            while depth > 0 and i + 1 < len(lines):
                i += 1
                buf += '\n' + lines[i]
                depth = buf.count('<<') - buf.count('>>')
            try:
                res.append(_parse_tla_value(buf))
            except Exception:
                res.append(['UNPARSED', buf])
        i += 1
    return res


def tlc(spec, cfg=None, workers=1, timeout=1800, env=None, extra=(), simulate=None, heap='6g', deque=False, cwd=SPEC, coverage=False):
    """Run TLC (with the Rat override on the classpath) on spec/<spec>.tla."""
    if not os.path.exists(os.path.join(CLASSES, 'Rat.class')):
        raise MachineryError('build/classes/Rat.class missing: run ./setup.sh')
    metadir = tempfile.mkdtemp(prefix='tlcmeta-', dir=SCRATCH_ROOT)
    cmd = ['java', '-XX:+UseParallelGC', '-Xmx' + heap, '-Xss64m', '-Djava.io.tmpdir=' + metadir]     # TLC leaves an empty tlc-<n> directory in java.io.tmpdir per run: keep it inside the scratch directory that is removed below
    if deque:
        cmd.append('-Dtlc2.tool.queue.IStateQueue=StateDeque')
    cmd += ['-cp', TLA_CP + ':' + CLASSES, 'tlc2.TLC', '-metadir', metadir, '-noGenerateSpecTE',
            '-workers', str(workers)]
    if cfg:
        cmd += ['-config', cfg]
    if coverage:
        cmd += ['-coverage', '1']
    if simulate:
        cmd += ['-simulate', simulate]
    cmd += list(extra) + [spec if spec.endswith('.tla') else spec + '.tla']
    e = dict(os.environ)
    if env:
        e.update({k: str(v) for k, v in env.items()})
    r = TLCResult()
    r.cmd = ' '.join(cmd)
    t0 = time.time()
    try:
        p = subprocess.run(cmd, cwd=cwd, env=e, stdout=subprocess.PIPE, stderr=subprocess.STDOUT, timeout=timeout)
        r.out = p.stdout.decode(errors='replace')
        rc = p.returncode
    except subprocess.TimeoutExpired as ex:
        r.out = (ex.stdout or b'').decode(errors='replace')
        shutil.rmtree(metadir, ignore_errors=True)
        raise MachineryError('TLC timed out after %ss on %s\n%s' % (timeout, spec, r.out[-2000:]))
    finally:
        shutil.rmtree(metadir, ignore_errors=True)
    r.wall = time.time() - t0
    ms = _STATES_RE.findall(r.out)
    if ms:
        r.transitions, r.states = int(ms[-1][0]), int(ms[-1][1])
    r.prints = _extract_prints(r.out)
    if 'Model checking completed. No error has been found.' in r.out or (simulate and rc == 0):
        r.ok = True
    else:
        m = re.search(r'Error: (Invariant .* is violated|Action property .* is violated|Temporal properties were violated|Deadlock reached|Assumption .* is false|The postcondition .*violated.*|.*)', r.out)
        r.violation = m.group(1) if m else 'TLC exit %d' % rc
        if ('is violated' not in r.out and 'Deadlock reached' not in r.out and 'is false' not in r.out
                and 'violated' not in r.out):
            raise MachineryError('TLC failed on %s (%s)\n%s' % (spec, r.violation, r.out[-4000:]))
    return r


def sany(spec):
    p = subprocess.run(['java', '-cp', TLA_CP + ':' + CLASSES, 'tla2sany.SANY', spec], cwd=SPEC,
                       stdout=subprocess.PIPE, stderr=subprocess.STDOUT)
    out = p.stdout.decode(errors='replace')
    return ('*** Errors' not in out and 'Fatal' not in out and p.returncode == 0), out


# --------------------------------------------------------------------------
# traces, evidence, findings
# --------------------------------------------------------------------------
def write_trace(path, records):
    with open(path, 'w') as f:
        json.dump(records, f, separators=(',', ':'))


def validate_trace(trace_spec, records, cfg=None, timeout=1800, extra_env=None, heap='6g', batch=None, parallel=8, groups=None, group_weight=None):
    """Write records to scratch files, run TLC on the trace spec over them (in
    parallel batches) and return (verdicts, stats).  verdicts is a dict
    id -> sorted list of violated clause names (only for bad records);
    TLC must report DONE with the full record count, otherwise MachineryError."""
    from concurrent.futures import ThreadPoolExecutor
    if not records:
        return {}, {'records': 0, 'states': 0, 'transitions': 0, 'wall': 0.0, 'judged_ids': []}
    if groups is not None:
        # groups: lists of records that must stay together (one trace each); pack them into <= parallel chunks
        chunks = [[] for _ in range(min(parallel, max(1, len(groups))))]
        if group_weight is None:
            for g in sorted(groups, key=len, reverse=True):
                min(chunks, key=len).extend(g)
        else:       # pack by an estimate of the cost of judging a group (longest processing time first)
            loads = [0] * len(chunks)
            for g in sorted(groups, key=group_weight, reverse=True):
                j = min(range(len(chunks)), key=lambda q: loads[q])
                chunks[j].extend(g)
                loads[j] += group_weight(g)
        chunks = [c for c in chunks if c]
    else:
        batch = batch or max(1, (len(records) + parallel - 1) // parallel)
        chunks = [records[i:i + batch] for i in range(0, len(records), batch)]
    tmpd = tempfile.mkdtemp(prefix='trace-', dir=SCRATCH_ROOT)
    cfg = cfg or (trace_spec + '.cfg')

    def one(k):
        path = os.path.join(tmpd, 'trace-%d.json' % k)
        write_trace(path, chunks[k])
        env = {'TRACE_FILE': path}
        if extra_env:
            env.update(extra_env)
        r = tlc(trace_spec, cfg, workers=1, timeout=timeout, env=env, heap=heap)
        return k, r
    verdicts = {}
    stats = {'records': len(records), 'states': 0, 'transitions': 0, 'wall': 0.0, 'judged_ids': [], 'clauses': 0}
    t0 = time.time()
    try:
        with ThreadPoolExecutor(max_workers=parallel) as ex:
            for k, r in ex.map(one, range(len(chunks))):
                if not r.ok:
                    raise MachineryError('trace spec %s did not complete: %s\n%s' % (trace_spec, r.violation, r.out[-3000:]))
                done = [p for p in r.prints if p and p[0] == 'DONE']
                if not done or done[-1][1] != len(chunks[k]):
                    raise MachineryError('trace spec %s consumed %s of %d records\n%s' % (trace_spec, done, len(chunks[k]), r.out[-3000:]))
                for p in r.prints:
                    if p and p[0] == 'BAD':
                        names = p[2]['__set__'] if isinstance(p[2], dict) else p[2]
                        if not names:
                            raise MachineryError('trace spec %s printed a BAD verdict with no clause for %s (verdict printing must use IF-THEN-ELSE, not a disjunction)' % (trace_spec, p[1]))
                        verdicts.setdefault(p[1], set()).update(names)
                    elif p and p[0] == 'OKC':
                        stats['clauses'] += p[1] if len(p) > 1 and isinstance(p[1], int) else 0
                stats['states'] += r.states
                stats['transitions'] += r.transitions
                stats['judged_ids'].extend(rec['id'] for rec in chunks[k])
    finally:
        shutil.rmtree(tmpd, ignore_errors=True)
    stats['wall'] = time.time() - t0
    return {k: sorted(v) for k, v in verdicts.items()}, stats


def load_known_findings():
    p = os.path.join(VERIF, 'known_findings.json')
    if not os.path.exists(p):
        return []
    with open(p) as f:
        return json.load(f).get('findings', [])


def write_replay(prop, seed, n, payload):
    d = os.path.join(VERIF, 'replays')
    os.makedirs(d, exist_ok=True)
    path = os.path.join(d, '%s-%s-%d.json' % (prop, seed, n))
    with open(path, 'w') as f:
        json.dump(payload, f, indent=1, default=str)
    return path


def write_evidence(prop, tier, seed, coverage, assumptions, wall_s, violations, level='model_checking'):
    d = os.path.join(VERIF, 'evidence')
    os.makedirs(d, exist_ok=True)
    ev = {'property_id': prop, 'tier': tier, 'seed': int(seed), 'level': level, 'coverage': coverage,
          'assumptions': assumptions, 'wall_s': round(wall_s, 2), 'violations': int(violations)}
    with open(os.path.join(d, prop + '.json'), 'w') as f:
        json.dump(ev, f, indent=1, default=str)
    return ev


def apalache_inductive(spec, cinit='CInit', init='Init', indinit='IndInit', indinv='IndInv', laws='Laws', timeout=600):
    """Unbounded check of an inductive invariant with Apalache (integer / set level specs only):
    Init => IndInv, IndInv /\ Next => IndInv', IndInv => Laws.  Returns a dict for the evidence; raises MachineryError when a
    run does not finish, returns {'skipped': ...} when apalache-mc is not installed."""
    exe = shutil.which('apalache-mc')
    if not exe:
        return {'spec': spec, 'tool': 'apalache-mc', 'skipped': 'apalache-mc not on PATH'}
    out = tempfile.mkdtemp(prefix='apalache-', dir=SCRATCH_ROOT)
    steps = [('Init => IndInv', ['--init=' + init, '--inv=' + indinv, '--length=0']),
             ('IndInv /\\ Next => IndInv\'', ['--init=' + indinit, '--inv=' + indinv, '--length=1']),
             ('IndInv => Laws', ['--init=' + indinit, '--inv=' + laws, '--length=0'])]
    res = {'spec': spec, 'tool': 'apalache-mc', 'steps': []}
    try:
        for name, args in steps:
            t0 = time.time()
            try:
                p = subprocess.run([exe, 'check', '--cinit=' + cinit] + args + ['--out-dir=' + out, spec + '.tla'], cwd=SPEC,
                                   stdout=subprocess.PIPE, stderr=subprocess.STDOUT, timeout=timeout)
            except subprocess.TimeoutExpired:
                raise MachineryError('apalache-mc timed out on %s (%s)' % (spec, name))
            txt = p.stdout.decode(errors='replace')
            ok = 'The outcome is: NoError' in txt and p.returncode == 0
            bad = 'The outcome is: Error' in txt
            if not ok and not bad:
                raise MachineryError('apalache-mc failed on %s (%s):\n%s' % (spec, name, txt[-1500:]))
            res['steps'].append({'obligation': name, 'holds': ok, 'wall_s': round(time.time() - t0, 1)})
    finally:
        shutil.rmtree(out, ignore_errors=True)
    res['ok'] = all(s_['holds'] for s_ in res['steps'])
    return res


def digest(obj):
    return hashlib.sha256(json.dumps(obj, sort_keys=True, default=str).encode()).hexdigest()[:16]


# --------------------------------------------------------------------------
# the standard pipeline: exhaustive TLC run on the module + trace validation
# --------------------------------------------------------------------------
def run_mc(spec, cfg, workers=16, timeout=3000, heap='8g', label=None):
    """Exhaustive TLC run.  Returns (TLCResult, violations list)."""
    r = tlc(spec, cfg, workers=workers, timeout=timeout, heap=heap)
    viol = []
    if not r.ok:
        viol.append({'key': 'spec/%s/%s' % (spec, (r.violation or '?').split(' is ')[0].replace('Invariant ', '')),
                     'what': 'TLC: %s on %s with %s' % (r.violation, spec, cfg),
                     'payload': {'tlc_tail': r.out[-3000:], 'cmd': r.cmd}})
    return r, viol


def pipeline(ctx, mcs, trace_spec, records, key_of=None, what_of=None, trace_cfg=None, parallel=8,
             nontrivial_of=None, rule='', assumptions=(), samples=3, extra_cov=None, extra_viol=(), timeout=2400, heap='6g',
             mutator=None):
    """mcs: list of (spec, cfg) exhaustive runs; records: trace records (dicts with id/op/in/out).
    Returns the result dict expected by ./check."""
    states = transitions = 0
    viol = list(extra_viol)
    mc_info = []
    if not getattr(ctx, 'no_mc', False):
        for spec, cfg in mcs:
            r, v = run_mc(spec, cfg)
            states += r.states
            transitions += r.transitions
            viol += v
            mc_info.append({'spec': spec, 'cfg': cfg, 'distinct_states': r.states, 'states_generated': r.transitions,
                            'wall_s': round(r.wall, 1), 'ok': r.ok})
    verdicts, st = validate_trace(trace_spec, records, cfg=trace_cfg, parallel=parallel, timeout=timeout, heap=heap) if records else ({}, {'records': 0, 'states': 0, 'transitions': 0, 'wall': 0, 'judged_ids': []})
    binding = None
    if mutator and records and not getattr(ctx, 'replay', None):
        # binding demonstration: corrupt one observed field in (up to) 3 records per operation; every
        # corrupted record must be rejected, otherwise the trace spec is too permissive to mean anything
        import copy
        per = {}
        muts = []
        for r in records:
            k = r.get('site', r['op']) + '/' + r['op']
            if per.get(k, 0) >= 3 or r['id'] in verdicts:
                continue
            m = mutator(copy.deepcopy(r))
            if m is not None:
                m['id'] = 'MUT-' + r['id']
                muts.append(m)
                per[k] = per.get(k, 0) + 1
        mv, _ = validate_trace(trace_spec, muts, cfg=trace_cfg, parallel=min(parallel, 4), timeout=timeout, heap=heap)
        missed = [m['id'] for m in muts if m['id'] not in mv]
        binding = {'mutated_records': len(muts), 'rejected': len(muts) - len(missed), 'operations': sorted(per)}
        if missed and not verdicts:
            raise MachineryError('binding demonstration failed: corrupted records accepted by %s: %s' % (trace_spec, missed[:5]))
        if missed:
            # the implementation under test is already being rejected (violations below): a mutator can be vacuous on the
            # malformed observations of a broken tree (e.g. a result that raised); report the violations, note the gap
            binding['accepted_mutants_on_a_violating_tree'] = missed[:10]
    byid = {r['id']: r for r in records}
    for rid, clauses in verdicts.items():
        rec = byid.get(rid, {'id': rid, 'op': '?'})
        for c in clauses:
            key = key_of(rec, c) if key_of else '%s/%s' % (rec.get('site', rec['op']), c)
            what = what_of(rec, c) if what_of else 'record %s (%s): clause %s violated' % (rid, rec.get('site', rec['op']), c)
            viol.append({'key': key, 'what': what, 'payload': {'record': rec, 'clause': c, 'trace_spec': trace_spec}})
    nt = set()
    for r in records:
        nt.add(nontrivial_of(r) if nontrivial_of else digest([r['op'], r.get('in')]))
    nt.discard(None)
    ops = {}
    for r in records:
        ops[r.get('site', r['op'])] = ops.get(r.get('site', r['op']), 0) + 1
    cov = {
        'states': states + st['states'], 'transitions': transitions + st['transitions'],
        'traces_validated_against_impl': len(records),
        'samples': [_shorten(r) for r in records[:samples]] or ['(no records)'],
        'evaluations': len(records), 'distinct_nontrivial': len(nt), 'rule': rule,
        'model_checking_runs': mc_info, 'records_per_operation': ops,
        'trace_validation': {'spec': trace_spec, 'records': len(records), 'tlc_states': st['states'], 'wall_s': round(st['wall'], 1),
                             'records_rejected': len(verdicts)},
        'exhaustive': False,
    }
    if binding:
        cov['binding_demo'] = binding
    if extra_cov:
        cov.update(extra_cov)
    return {'coverage': cov, 'assumptions': list(assumptions), 'violations': viol}


def _shorten(o, n=6):
    if isinstance(o, dict):
        return {k: _shorten(v, n) for k, v in o.items()}
    if isinstance(o, list):
        if len(o) > n:
            return [_shorten(v, n) for v in o[:n]] + ['... (%d items)' % len(o)]
        return [_shorten(v, n) for v in o]
    if isinstance(o, str) and len(o) > 60:
        return o[:57] + '...'
    return o
