----------------------------- MODULE Sampling -----------------------------
(***************************************************************************)
(* Property C05: drawing a sample frequency spectrum from a density phi    *)
(* given on a product of frequency grids (dadi: Spectrum.from_phi,         *)
(* Spectrum.from_phi_inbreeding, Numerics.BetaBinomConvolution).           *)
(*                                                                         *)
(* phi is a tensor [sh, d] on the grids (module Grid); ns are the sample   *)
(* sizes; the result is a spectrum of module SpectrumOps with shape        *)
(* <<n1+1,...,nP+1>>, nothing masked, unfolded, unlabelled.                *)
(*                                                                         *)
(*  Analytic : the exact integral over the grid box of                     *)
(*             prod_d Binomial(n_d, i_d; x_d) * (multilinear interpolant   *)
(*             of phi)                                                     *)
(*  Direct   : the trapezoid rule applied to prod_d Binomial(n_d, i_d;     *)
(*             xadmix_d) * asc * phi at the grid points                    *)
(*  Inbreeding : Direct with the binomial replaced by the distribution of  *)
(*             the allele count in n/ploidy individuals whose genotypes    *)
(*             are beta-binomial(ploidy, x(1-F)/F, (1-x)(1-F)/F)           *)
(*  Dispatch : the path from_phi has to take for given options             *)
(*                                                                         *)
(* Everything is exact rational arithmetic; nothing here is taken from the *)
(* implementation (no incomplete beta functions, no logarithms).           *)
(***************************************************************************)
EXTENDS Grid, SpectrumOps

\* identity; TLC evaluates function constructors lazily (the body again on every application), the Java
\* override returns the same function with all values computed once
Strict(f) == f

(***************************************************************************)
(* One dimension: binomial sampling against hat functions                  *)
(***************************************************************************)
\* integral over [lo, hi] of x^a (1-x)^b dx, by expanding (1-x)^b and integrating term by term
IntMonoDef(a, b, lo, hi) ==
    RSum([k \in 0..b |-> RMul(RMul(RBinom(b, k), IF k % 2 = 0 THEN "1" ELSE "-1"),
                              RDiv(RSub(RPow(hi, a + k + 1), RPow(lo, a + k + 1)), RInt(a + k + 1)))])
\* the same (TLC: Java override, compared with IntMonoDef by SamplingMC)
IntMono(a, b, lo, hi) == IntMonoDef(a, b, lo, hi)
\* integral over [lo, hi] of C(n,i) x^i (1-x)^(n-i) * (c0 + c1 x) dx
BinLinInt(n, i, lo, hi, c0, c1) ==
    RMul(RBinom(n, i), RAdd(RMul(c0, IntMono(i, n - i, lo, hi)), RMul(c1, IntMono(i + 1, n - i, lo, hi))))
\* binomial sampling probability
BinomP(n, i, x) == RMul(RBinom(n, i), RMul(RPow(x, i), RPow(RSub("1", x), n - i)))
\* HatWeight(n,i,g,j) = integral over [g[1], g[L]] of BinomP(n,i,x) * Hat(g,j,x) dx
HatWeight(n, i, g, j) ==
    LET L == Len(g)
        left  == IF j = 1 THEN "0"
                 ELSE LET dx == Dx(g, j - 1) IN    \* hat = (x - g[j-1]) / dx on [g[j-1], g[j]]
                      BinLinInt(n, i, g[j - 1], g[j], RNeg(RDiv(g[j - 1], dx)), RDiv("1", dx))
        right == IF j = L THEN "0"
                 ELSE LET dx == Dx(g, j) IN        \* hat = (g[j+1] - x) / dx on [g[j], g[j+1]]
                      BinLinInt(n, i, g[j], g[j + 1], RDiv(g[j + 1], dx), RNeg(RDiv("1", dx)))
    IN  RAdd(left, right)
\* sampling matrices: M[i][j], i in 0..n (derived-allele count), j in 1..L (grid point)
HatMatrix(n, g) == Strict([i \in 0..n |-> Strict([j \in 1..Len(g) |-> HatWeight(n, i, g, j)])])
\* ascertainment weight documented for het_ascertained: the ascertainment individual (not in the
\* sample) is heterozygous, probability proportional to x (1 - x)
Asc(x) == RMul(x, RSub("1", x))
BinMatrix(n, g, asc) ==
    Strict([i \in 0..n |-> Strict([j \in 1..Len(g) |->
        RMul(W(g, j), RMul(BinomP(n, i, g[j]), IF asc THEN Asc(g[j]) ELSE "1"))])])

(***************************************************************************)
(* Inbreeding: genotypes of one individual of ploidy p are                 *)
(* beta-binomial(p, alpha, beta), alpha = x(1-F)/F, beta = (1-x)(1-F)/F;   *)
(* the sample is n/p independent individuals.                              *)
(***************************************************************************)
RECURSIVE Rising(_, _)
Rising(a, k) == IF k = 0 THEN "1" ELSE RMul(Rising(a, k - 1), RAdd(a, RInt(k - 1)))
\* probability of i successes, i in 0..p  (alpha + beta > 0, alpha, beta >= 0)
BetaBinom(p, i, alpha, beta) ==
    RDiv(RMul(RBinom(p, i), RMul(Rising(alpha, i), Rising(beta, p - i))), Rising(RAdd(alpha, beta), p))
\* genotype distribution as a sequence q[i+1], i in 0..p; F = 0 is the binomial (no inbreeding)
GenoPMF(x, F, p) ==
    IF RIsZero(F) THEN [k \in 1..(p + 1) |-> BinomP(p, k - 1, x)]
    ELSE LET c == RDiv(RSub("1", F), F) IN
         [k \in 1..(p + 1) |-> BetaBinom(p, k - 1, RMul(x, c), RMul(RSub("1", x), c))]
\* convolution of two distributions on 0..(Len-1)
Conv(q, r) == Strict([k \in 1..(Len(q) + Len(r) - 1) |->
                  RSum([u \in 1..Len(q) |-> IF k - u + 1 >= 1 /\ k - u + 1 <= Len(r) THEN RMul(q[u], r[k - u + 1]) ELSE "0"])])
RECURSIVE ConvPow(_, _)
ConvPow(q, m) == IF m = 0 THEN <<"1">> ELSE Conv(ConvPow(q, m - 1), q)
\* distribution of the derived-allele count in m individuals: sequence of length p*m + 1
InbredPMF(x, F, p, m) == ConvPow(Strict(GenoPMF(x, F, p)), m)
\* what Numerics.BetaBinomConvolution(i, m, alpha, beta, ploidy) returns
BetaBinomConv(i, m, alpha, beta, p) == ConvPow(Strict([k \in 1..(p + 1) |-> BetaBinom(p, k - 1, alpha, beta)]), m)[i + 1]
InbMatrix(n, p, F, g, asc) ==
    LET pm == Strict([j \in 1..Len(g) |-> InbredPMF(g[j], F, p, n \div p)])
    IN  Strict([i \in 0..n |-> Strict([j \in 1..Len(g) |->
            RMul(W(g, j), RMul(pm[j][i + 1], IF asc THEN Asc(g[j]) ELSE "1"))])])

(***************************************************************************)
(* P dimensions                                                            *)
(***************************************************************************)
\* apply the matrix M (rows 0..n, columns 1..sh[a]) along axis a of tensor t
ApplyAxis(t, a, M, n) ==
    LET st  == GStride(t.sh, a)
        L   == t.sh[a]
        sh2 == [t.sh EXCEPT ![a] = n + 1]
        td  == Strict(t.d)
    IN  [sh |-> sh2,
         d  |-> Strict([k \in 1..GSize(sh2) |->
                   LET outer == (k - 1) \div (st * (n + 1))
                       i     == ((k - 1) \div st) % (n + 1)
                       inner == (k - 1) % st
                   IN  RDot(M[i], [j \in 1..L |-> td[outer * (st * L) + (j - 1) * st + inner + 1]])])]
RECURSIVE ApplyFrom(_, _, _, _)
ApplyFrom(t, Ms, ns, a) == IF a = 0 THEN t ELSE ApplyFrom(ApplyAxis(t, a, Ms[a], ns[a]), Ms, ns, a - 1)
AsSpectrum(t) == [sh |-> t.sh, d |-> t.d, m |-> [k \in 1..GSize(t.sh) |-> FALSE], f |-> FALSE, ids |-> <<>>]
Separable(phi, ns, Ms) == AsSpectrum(ApplyFrom(phi, Ms, ns, Len(ns)))
ShapeOfNs(ns) == [a \in 1..Len(ns) |-> ns[a] + 1]

\* ---- Analytic ----
\* the defining formula: entry ix (0-based counts) = Sum_g phi[g] * Prod_d HatWeight(n_d, ix_d, grid_d, g_d)
RECURSIVE HatProdFrom(_, _, _, _, _)
HatProdFrom(ns, ix, grids, jx, a) ==
    IF a > Len(ns) THEN "1" ELSE RMul(HatWeight(ns[a], ix[a], grids[a], jx[a]), HatProdFrom(ns, ix, grids, jx, a + 1))
AnalyticAt(phi, ns, grids, ix) ==
    RSum([k \in 1..GSize(phi.sh) |-> RMul(phi.d[k], HatProdFrom(ns, ix, grids, GUnflat(phi.sh, k), 1))])
AnalyticDef(phi, ns, grids) ==
    LET sh == ShapeOfNs(ns) IN
    [sh |-> sh, d |-> [k \in 1..Size(sh) |-> AnalyticAt(phi, ns, grids, Unflat(sh, k))],
     m |-> [k \in 1..Size(sh) |-> FALSE], f |-> FALSE, ids |-> <<>>]
\* the same, evaluated one axis at a time (law L_AnalyticSeparable of SamplingMC)
Analytic(phi, ns, grids) == Separable(phi, ns, [a \in 1..Len(ns) |-> HatMatrix(ns[a], grids[a])])

\* ---- Direct ----
\* options: admix = <<>> (none) or a P x P matrix of proportions (row d = ancestry of sampled population d);
\*          het = 0 (none) or the axis of the ascertainment population
NoOpt == [admix |-> <<>>, het |-> 0]
RowStochastic(A) == \A d \in 1..Len(A) : RSum(A[d]) = "1" /\ \A k \in 1..Len(A[d]) : RNonNeg(A[d][k])
IdentityAdmix(P) == [d \in 1..P |-> [k \in 1..P |-> IF k = d THEN "1" ELSE "0"]]
AdmixFreq(A, d, grids, jx) ==
    IF A = <<>> THEN grids[d][jx[d]]
    ELSE RSum([k \in 1..Len(grids) |-> RMul(A[d][k], grids[k][jx[k]])])
AscAt(het, grids, jx) == IF het = 0 THEN "1" ELSE Asc(grids[het][jx[het]])
RECURSIVE BinProdFrom(_, _, _, _, _, _)
BinProdFrom(ns, ix, grids, jx, A, a) ==
    IF a > Len(ns) THEN "1"
    ELSE RMul(BinomP(ns[a], ix[a], AdmixFreq(A, a, grids, jx)), BinProdFrom(ns, ix, grids, jx, A, a + 1))
DirectAt(phi, ns, grids, opt, ix) ==
    RSum([k \in 1..GSize(phi.sh) |->
            LET jx == GUnflat(phi.sh, k) IN
            RMul(RMul(phi.d[k], WProd(grids, jx)),
                 RMul(AscAt(opt.het, grids, jx), BinProdFrom(ns, ix, grids, jx, opt.admix, 1)))])
DirectDef(phi, ns, grids, opt) ==
    LET sh == ShapeOfNs(ns) IN
    [sh |-> sh, d |-> [k \in 1..Size(sh) |-> DirectAt(phi, ns, grids, opt, Unflat(sh, k))],
     m |-> [k \in 1..Size(sh) |-> FALSE], f |-> FALSE, ids |-> <<>>]
\* the same with the per-axis factors tabulated once (any options)
DirectTab(phi, ns, grids, opt) ==
    LET P  == Len(ns)
        N  == GSize(phi.sh)
        sh == ShapeOfNs(ns)
        jxs == Strict([k \in 1..N |-> GUnflat(phi.sh, k)])
        wphi == Strict([k \in 1..N |-> RMul(RMul(phi.d[k], WProd(grids, jxs[k])), AscAt(opt.het, grids, jxs[k]))])
        fac == Strict([a \in 1..P |-> Strict([i \in 0..ns[a] |-> Strict([k \in 1..N |->
                   BinomP(ns[a], i, AdmixFreq(opt.admix, a, grids, jxs[k]))])])])
        RECURSIVE prod(_, _, _)
        prod(ix, k, a) == IF a > P THEN "1" ELSE RMul(fac[a][ix[a]][k], prod(ix, k, a + 1))
    IN  [sh |-> sh,
         d |-> Strict([q \in 1..Size(sh) |-> LET ix == Unflat(sh, q) IN
                   RSum([k \in 1..N |-> IF wphi[k] = "0" THEN "0" ELSE RMul(wphi[k], prod(ix, k, 1))])]),
         m |-> [k \in 1..Size(sh) |-> FALSE], f |-> FALSE, ids |-> <<>>]
\* without admixture the integrand is a product over the axes: evaluated one axis at a time
DirectSep(phi, ns, grids, het) == Separable(phi, ns, [a \in 1..Len(ns) |-> BinMatrix(ns[a], grids[a], het = a)])
Direct(phi, ns, grids, opt) == IF opt.admix = <<>> THEN DirectSep(phi, ns, grids, opt.het) ELSE DirectTab(phi, ns, grids, opt)

\* ---- Inbreeding ----
CanInbreed(ns, Fs, ploidys) == \A a \in 1..Len(ns) : ns[a] % ploidys[a] = 0 /\ RNonNeg(Fs[a]) /\ RLt(Fs[a], "1")
Inbreeding(phi, ns, grids, Fs, ploidys, het) ==
    Separable(phi, ns, [a \in 1..Len(ns) |-> InbMatrix(ns[a], ploidys[a], Fs[a], grids[a], het = a)])

\* ---- Dispatch: which path Spectrum.from_phi has to take ----
\* "analytic" unless an option asks for something else; het_ascertained or force_direct -> "direct";
\* admix_props -> "admix" (the direct rule with admixed frequencies); admix_props together with
\* het_ascertained is documented as unsupported -> "refuse".  With one population admix_props has no effect.
Dispatch(P, hasAdmix, het, force) ==
    IF hasAdmix /\ het # 0 THEN "refuse"
    ELSE IF hasAdmix /\ P >= 2 THEN "admix"
    ELSE IF het # 0 \/ force THEN "direct"
    ELSE "analytic"

\* distance used by the laws: max |a - b| over the entries
MaxDiff(s, t) == RSeqMaxAbs([k \in 1..Len(s.d) |-> RSub(s.d[k], t.d[k])])
=============================================================================
