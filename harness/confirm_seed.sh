#!/bin/sh
# usage: confirm_seed.sh <prop>   - confirm the seeded changes in /tmp/seed-<prop>-out/{1,2,3} in the scratch worktree /tmp/seed-<prop>:
# demo exits 0 on the clean tree, 1 with the change, and the whole existing test-suite passes with the change
P="$1"; PRE="${2:-seed}"; W=/tmp/$PRE-$P; O=/tmp/$PRE-$P-out
for k in 1 2 3; do
  [ -f $O/$k/patch.diff ] || continue
  cd $W && git checkout -q -- . && ./rebuild_ext.sh >/dev/null
  PYTHONPATH=$W /venv/bin/python $O/$k/demo.py >/dev/null 2>&1; CLEAN=$?
  git apply $O/$k/patch.diff || { echo "$P/$k APPLY-FAILED"; continue; }
  if grep -q '^+++ b/.*\.c$' $O/$k/patch.diff; then ./rebuild_ext.sh >/dev/null; fi
  PYTHONPATH=$W /venv/bin/python $O/$k/demo.py >/dev/null 2>&1; CHANGED=$?
  T=$(PYTHONPATH=$W /venv/bin/python -m pytest -q -p no:cacheprovider --timeout=900 tests/ 2>&1 | tail -1)
  echo "$P/$k demo_clean_exit=$CLEAN demo_changed_exit=$CHANGED tests: $T"
  git checkout -q -- . && ./rebuild_ext.sh >/dev/null
done
