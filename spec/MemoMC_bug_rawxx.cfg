\* DEFECTIVE design (must be refuted): a strided grid reaches the compiled kernels
CONSTANTS
  MaxDepth = 1
  BaseSel = "memo"
  LaySel = "all"
  ProjKeyMode = "full"
  DbetaKeyMode = "full"
  PartKeyMode = "full"
  EntryMode = "copy_all"
  XXMode = "raw_td"
  GodMode = "object"
  DemesMode = "pure"
  PerturbMode = "pure"
  HashMode = "ordered"
  SFSMode = "copies"
  VectorMode = "copies"
  MaskMode = "setter"
  KernelMode = "stateless"
  MaxTable = 60
SPECIFICATION Spec
CHECK_DEADLOCK FALSE
CONSTRAINT TableBound
VIEW MCView
INVARIANT TypeOK
INVARIANT AlphabetOK
INVARIANT TablesSound
INVARIANT ResultIndependentOfHistory
INVARIANT ResultIndependentOfHashSeed
INVARIANT LayoutIndependent
INVARIANT ArgumentsUnchanged
INVARIANT ResultIsFresh
