"""C03 - integration is linear in (density, theta0) and independent of the reference size
(spec/Scheme.tla laws in SchemeMC; relational records judged by spec/Trace_Relations.tla)."""
import random, itertools, math
import numpy as np
from . import common
from . import integrator_common as ic
from .scheme_common import rand_grid, rand_density, loguni

PROP = 'C03'


def _kwargs(case, scale=1.0, theta_scale=1.0):
    """dadi keyword arguments of a driver case re-expressed relative to a reference size scaled by `scale`."""
    P = case['P']
    mode = case['mode']

    def val(f, mul, tdiv):
        c0, c1 = f['c0'] * mul, f['c1'] * mul / tdiv
        if mode == 'const' or f.get('const'):
            return c0
        return (lambda t, c0=c0, c1=c1: c0 + c1 * t)
    kw = {}
    for k in range(1, P + 1):
        p = case['par'][k - 1]
        sfx = '' if P == 1 else str(k)
        kw['nu' + sfx] = val(p['nu'], scale, scale)
        kw['gamma' + sfx] = val(p['gamma'], 1 / scale, scale)
        kw['h' + sfx] = val(p['h'], 1.0, scale)
        if P == 1:
            kw['beta'] = val(p['beta'], 1.0, scale)
        for j in range(1, P + 1):
            if j != k:
                kw['m%d%d' % (k, j)] = val(p['mig'][j - 1], 1 / scale, scale)
        if P >= 2:
            kw['frozen%d' % k] = case['frozen'][k - 1]
        if P == 2:
            kw['nomut%d' % k] = case['nomut'][k - 1]
    kw['theta0'] = val(case['theta0'], theta_scale / scale, scale)
    return kw


def _layout(phi, lay):
    if lay == 'F':
        return np.asfortranarray(phi)
    if lay == 'T':
        return np.ascontiguousarray(phi.transpose()).transpose()      # same values, reversed strides
    return phi.copy()


def records(ctx, rng, nid):
    import dadi
    from dadi import Integration, PhiManip, Numerics
    recs = []
    n = 21 if ctx.quick else 105
    for r in range(n):
        P = [1, 2, 3, 2, 3, 4, 5][r % 7]
        case = ic.gen_case(rng, P, kind='normal', n={1: 12, 2: 8, 3: 6, 4: 5, 5: 4}[P])
        case['t0'] = 0.0
        case['steps'] = rng.uniform(2.2, 6.5)
        xx = rand_grid(random.Random(case['grid_seed']), case['n'], case['grid_kind'])
        phi1 = rand_density(random.Random(case['phi_seed']), [case['n']] * P)
        phi2 = rand_density(random.Random(case['phi_seed'] + 1), [case['n']] * P)
        dts = []
        for k in range(1, P + 1):
            p = case['par'][k - 1]
            ms = [p['mig'][j]['c0'] for j in range(P) if j != k - 1] or [0]
            dts.append(Integration._compute_dt(np.diff(xx), p['nu']['c0'], ms, p['gamma']['c0'], p['h']['c0']))
        T = case['steps'] * min(dts)
        f = getattr(Integration, ic.FUNCS[P])
        site = 'Integration.%s' % ic.FUNCS[P]
        # (a) linearity in (phi, theta0)
        a, b = rng.choice([(1.0, 1.0), (2.5, 0.0), (rng.uniform(0.1, 3), rng.uniform(0.1, 3)), (0.0, 1.7),
                           (1.0, -1.5), (-0.7, 2.0), (rng.uniform(-3, 3), rng.uniform(-3, 3))])
        th1, th2 = case['theta0']['c0'], rng.choice([rng.uniform(0.1, 4), 0.0, rng.uniform(0.1, 4)])
        # theta0 = 0 is a legal boundary value (pure relaxation of the density): every integrator sees it in both roles
        if (r // 7) % 3 == 1:
            th2 = 0.0
        elif (r // 7) % 3 == 2:
            th1 = 0.0
            case['theta0'] = {'c0': 0.0, 'c1': 0.0}
        if r % 7 == 3 and b != 0:   # mutation rates that cancel in the combination
            th2 = -a * th1 / b if -a * th1 / b >= 0 else th2
        # dadi rejects a negative mutation rate: keep a*th1 + b*th2 >= 0 (densities may have either sign)
        if a * th1 < 0:
            th1 = 0.0
            case['theta0'] = {'c0': 0.0, 'c1': 0.0}
        if b * th2 < 0 and a * th1 + b * th2 < 0:
            th2 = (a * th1 / -b) * rng.random()
        # memory layouts of the two densities (C, Fortran, transposed view): mixed layouts in every third record
        lay1, lay2 = (('C', 'C'), ('T', 'C'), ('F', 'T'))[r % 3] if P >= 2 else ('C', 'C')
        try:
            c1 = dict(case, theta0={'c0': th1, 'c1': case['theta0']['c1']})
            c2 = dict(case, theta0={'c0': th2, 'c1': 0.0})
            c3 = dict(case, theta0={'c0': a * th1 + b * th2, 'c1': a * case['theta0']['c1']})
            # the caller's arrays are handed over as they are (no defensive copy) and the combination is formed afterwards:
            # an integrator that modified its input would be seen here as a failure of linearity
            p1 = _layout(phi1, lay1)
            p2 = _layout(phi2, lay2)
            o1 = f(p1, xx, T, **_kwargs(c1))
            o2 = f(p2, xx, T, **_kwargs(c2))
            o3 = f(a * p1 + b * p2, xx, T, **_kwargs(c3))
            out = {'o1': common.rats(o1.ravel()), 'o2': common.rats(o2.ravel()), 'o3': common.rats(o3.ravel())}
        except Exception as e:
            out = {'raised': type(e).__name__ + ':' + str(e)[:60]}
        recs.append({'id': 'linear-%d' % next(nid), 'op': 'linear', 'site': site,
                     'in': {'a': common.rat(a), 'b': common.rat(b), 'P': P, 'mode': case['mode'], 'frozen': case['frozen'], 'nomut': case['nomut']}, 'out': out})
        # (b) reference-size invariance of one integration
        c = rng.choice([0.05, 1 / 3., 3.0, 7.3, 20.0, loguni(rng, 0.05, 20)])
        if r % 4 == 1:
            # large sizes without migration or selection: the time-step rule is driven by 1/nu alone and the steps become long
            for p_ in case['par']:
                p_['nu'] = {'c0': rng.uniform(5, 20), 'c1': 0.0}
                p_['gamma'] = {'c0': 0.0, 'c1': 0.0}
                p_['mig'] = [{'c0': 0.0, 'c1': 0.0, 'const': True} for _ in p_['mig']]
            c = rng.choice([7.3, 20.0])
            dts = [Integration._compute_dt(np.diff(xx), p_['nu']['c0'], [0], 0.0, 0.5) for p_ in case['par']]
            T = case['steps'] * min(dts)
        try:
            x = f(phi1.copy(), xx, T * c, **_kwargs(case, scale=c))
            y = f(phi1.copy(), xx, T, **_kwargs(case))
            out = {'x': common.rats(x.ravel()), 'y': common.rats(y.ravel())}
        except Exception as e:
            out = {'raised': type(e).__name__ + ':' + str(e)[:60]}
        recs.append({'id': 'same-%d' % next(nid), 'op': 'same', 'site': site,
                     'in': {'law': 'ReferenceSizeInvariance', 'c': common.rat(c), 'P': P, 'mode': case['mode'], 'frozen': case['frozen']}, 'out': out})
    # (b2) the equilibrium density itself under strong selection: the numerical regime must follow gamma*nu, not gamma
    for gam in (-400.0, -250.0, -100.0, 100.0, 250.0):
        for c in (2.0, 5.0, 0.2):
            xx = Numerics.default_grid(24)
            try:
                x = PhiManip.phi_1D(xx, nu=c, theta0=1.0 / c, gamma=gam / c)
                y = PhiManip.phi_1D(xx, nu=1.0, theta0=1.0, gamma=gam)
                out = {'x': common.rats(x), 'y': common.rats(y)}
            except Exception as e:
                out = {'raised': type(e).__name__ + ':' + str(e)[:60]}
            recs.append({'id': 'same-%d' % next(nid), 'op': 'same', 'site': 'PhiManip.phi_1D',
                         'in': {'law': 'ReferenceSizeInvariance', 'c': common.rat(c), 'gamma': common.rat(gam), 'P': 1, 'mode': 'equilibrium'}, 'out': out})
    # (b3) a severe bottleneck seen from a large reference size: very small relative sizes, hence very short time steps
    for r in range(3 if ctx.quick else 12):
        P = rng.choice([1, 2])
        case = ic.gen_case(rng, P, kind='normal', n={1: 12, 2: 8}[P], mode=rng.choice(['const', 'funcconst']))
        case['t0'] = 0.0
        case['frozen'] = [False] * P
        case['layout'] = 'C'
        for p_ in case['par']:
            p_['nu'] = {'c0': rng.uniform(0.003, 0.01), 'c1': 0.0}
            p_['gamma'] = {'c0': 0.0, 'c1': 0.0}
            p_['mig'] = [{'c0': 0.0, 'c1': 0.0, 'const': True} for _ in p_['mig']]
        xx = rand_grid(random.Random(case['grid_seed']), case['n'], case['grid_kind'])
        phi1 = rand_density(random.Random(case['phi_seed']), [case['n']] * P)
        dts = [Integration._compute_dt(np.diff(xx), p_['nu']['c0'], [0], 0.0, 0.5) for p_ in case['par']]
        T = rng.uniform(2.2, 5.5) * min(dts)
        c = 0.05
        f = getattr(Integration, ic.FUNCS[P])
        try:
            x = f(phi1.copy(), xx, T * c, **_kwargs(case, scale=c))
            y = f(phi1.copy(), xx, T, **_kwargs(case))
            out = {'x': common.rats(x.ravel()), 'y': common.rats(y.ravel())}
        except Exception as e:
            out = {'raised': type(e).__name__ + ':' + str(e)[:60]}
        recs.append({'id': 'same-%d' % next(nid), 'op': 'same', 'site': 'Integration.%s' % ic.FUNCS[P],
                     'in': {'law': 'ReferenceSizeInvariance', 'c': common.rat(c), 'P': P, 'mode': case['mode'] + '/bottleneck', 'frozen': case['frozen']}, 'out': out})
    # (b4) durations that are a whole number of steps of the time-step rule (T = k * dt): the number of steps must not depend on how
    # k*dt/dt happens to round in the rescaled units
    rx = random.Random(ctx.seed + 3304)
    for P in (1, 2, 3):
        for mode in (('const',) if ctx.quick else ('const', 'funcconst')):
            for ksteps in ((2, 3) if ctx.quick else (1, 2, 3, 5, 8)):
                case = ic.gen_case(rx, P, kind='normal', n={1: 12, 2: 8, 3: 6}[P], mode=mode)
                case['t0'] = 0.0
                case['layout'] = 'C'
                xx = rand_grid(random.Random(case['grid_seed']), case['n'], case['grid_kind'])
                phi1 = rand_density(random.Random(case['phi_seed']), [case['n']] * P)
                dts = []
                for k in range(1, P + 1):
                    p_ = case['par'][k - 1]
                    ms = [p_['mig'][j]['c0'] for j in range(P) if j != k - 1] or [0]
                    dts.append(Integration._compute_dt(np.diff(xx), p_['nu']['c0'], ms, p_['gamma']['c0'], p_['h']['c0']))
                T = ksteps * min(dts)
                f = getattr(Integration, ic.FUNCS[P])
                for c in (0.05, 0.1, 0.2, 1.5, 3.0, 7.0, 13.0):
                    try:
                        x = f(phi1.copy(), xx, T * c, **_kwargs(case, scale=c))
                        y = f(phi1.copy(), xx, T, **_kwargs(case))
                        out = {'x': common.rats(x.ravel()), 'y': common.rats(y.ravel())}
                    except Exception as e:
                        out = {'raised': type(e).__name__ + ':' + str(e)[:60]}
                    recs.append({'id': 'same-%d' % next(nid), 'op': 'same', 'site': 'Integration.%s' % ic.FUNCS[P],
                                 'in': {'law': 'ReferenceSizeInvariance', 'c': common.rat(c), 'P': P, 'mode': case['mode'] + '/whole-steps', 'frozen': case['frozen'],
                                        'ksteps': ksteps}, 'out': out})
    # (b5) coefficient pairs of extreme magnitude (the statement quantifies over all (a,b)) and long epochs (many steps, the
    # density close to stationary): linearity must hold at every scale of the density and of theta0
    ry = random.Random(ctx.seed + 3305)
    for P in (1, 2, 3) if ctx.quick else (1, 2, 3, 4):
        for (a, b, long_epoch) in ((1e-9, 0.0, False), (1e-12, 1e-10, True), (1e9, -3e8, False)) if ctx.quick else \
                ((1e-9, 0.0, False), (1e-12, 1e-10, True), (1e9, -3e8, False), (1e-7, 1e-7, True), (1e-15, 0.0, True), (1e12, 1.0, False)):
            case = ic.gen_case(ry, P, kind='normal', n={1: 12, 2: 8, 3: 6, 4: 5}[P], mode='const' if long_epoch else ry.choice(['const', 'linear']))
            case['t0'] = 0.0
            case['layout'] = 'C'
            case['frozen'] = [False] * P
            case['nomut'] = [False] * P
            if long_epoch:      # T/nu around 20: a few thousand steps on a small grid; no migration / selection so that steps stay long
                for p_ in case['par']:
                    p_['nu'] = {'c0': ry.uniform(0.5, 2.0), 'c1': 0.0}
                    p_['gamma'] = {'c0': 0.0, 'c1': 0.0}
                    p_['mig'] = [{'c0': 0.0, 'c1': 0.0, 'const': True} for _ in p_['mig']]
            xx = rand_grid(random.Random(case['grid_seed']), case['n'], case['grid_kind'])
            phi1 = rand_density(random.Random(case['phi_seed']), [case['n']] * P)
            phi2 = rand_density(random.Random(case['phi_seed'] + 1), [case['n']] * P)
            dts = []
            for k in range(1, P + 1):
                p_ = case['par'][k - 1]
                ms = [p_['mig'][j]['c0'] for j in range(P) if j != k - 1] or [0]
                dts.append(Integration._compute_dt(np.diff(xx), p_['nu']['c0'], ms, p_['gamma']['c0'], p_['h']['c0']))
            T = (20.0 * min(p_['nu']['c0'] for p_ in case['par'])) if long_epoch else ry.uniform(2.2, 5.5) * min(dts)
            th1, th2 = case['theta0']['c0'], ry.uniform(0.1, 4)
            if a * th1 + b * th2 < 0:
                th2 = 0.0
            f = getattr(Integration, ic.FUNCS[P])
            try:
                c1 = dict(case, theta0={'c0': th1, 'c1': case['theta0']['c1']})
                c2 = dict(case, theta0={'c0': th2, 'c1': 0.0})
                c3 = dict(case, theta0={'c0': a * th1 + b * th2, 'c1': a * case['theta0']['c1']})
                o1 = f(phi1, xx, T, **_kwargs(c1))
                o2 = f(phi2, xx, T, **_kwargs(c2))
                o3 = f(a * phi1 + b * phi2, xx, T, **_kwargs(c3))
                out = {'o1': common.rats(o1.ravel()), 'o2': common.rats(o2.ravel()), 'o3': common.rats(o3.ravel())}
            except Exception as e:
                out = {'raised': type(e).__name__ + ':' + str(e)[:60]}
            recs.append({'id': 'linear-%d' % next(nid), 'op': 'linear', 'site': 'Integration.%s' % ic.FUNCS[P],
                         'in': {'a': common.rat(a), 'b': common.rat(b), 'P': P, 'mode': case['mode'] + ('/long-epoch' if long_epoch else '/extreme-coefficients'),
                                'frozen': case['frozen'], 'nomut': case['nomut']}, 'out': out})
    # (b6) continuation from a shared density: a first epoch is integrated once, and that ONE result object is then continued
    # twice - in the original units and re-expressed - so an integrator that works on (or aliases) its input is seen; plus
    # durations shorter than one step of the rule after re-expression (a founder event seen from a large reference size)
    rz = random.Random(ctx.seed + 3306)
    for P in (1, 2, 3, 4, 5) if ctx.quick else (1, 2, 3, 4, 5, 2, 3, 4, 5):
        for variant in ('continue', 'short'):
            if variant == 'short' and P > 3 and ctx.quick:
                continue
            case = ic.gen_case(rz, P, kind='normal', n={1: 12, 2: 8, 3: 6, 4: 5, 5: 4}[P], mode=rz.choice(['const', 'linear']))
            case['t0'] = 0.0
            case['layout'] = 'C'
            case['frozen'] = [False] * P
            case['nomut'] = [False] * P
            if variant == 'short':
                for p_ in case['par']:
                    p_['nu'] = {'c0': rz.uniform(0.003, 0.01), 'c1': 0.0}
                    p_['gamma'] = {'c0': 0.0, 'c1': 0.0}
                    p_['mig'] = [{'c0': 0.0, 'c1': 0.0, 'const': True} for _ in p_['mig']]
            xx = rand_grid(random.Random(case['grid_seed']), case['n'], case['grid_kind'])
            phi0 = rand_density(random.Random(case['phi_seed']), [case['n']] * P)
            dts = []
            for k in range(1, P + 1):
                p_ = case['par'][k - 1]
                ms = [p_['mig'][j]['c0'] for j in range(P) if j != k - 1] or [0]
                dts.append(Integration._compute_dt(np.diff(xx), p_['nu']['c0'], ms, p_['gamma']['c0'], p_['h']['c0']))
            T = (rz.uniform(0.3, 0.9) if variant == 'short' else rz.uniform(2.2, 4.5)) * min(dts)
            c = 0.05 if variant == 'short' else rz.choice([0.2, 3.0, 7.3])
            f = getattr(Integration, ic.FUNCS[P])
            try:
                first = f(phi0.copy(), xx, T, **_kwargs(case))          # the shared object
                ys = common.rats(f(first, xx, T, **_kwargs(case)).ravel())               # values recorded at once: a result that
                xs = common.rats(f(first, xx, T * c, **_kwargs(case, scale=c)).ravel())  # aliases `first` would change later
                out = {'x': xs, 'y': ys}
            except Exception as e:
                out = {'raised': type(e).__name__ + ':' + str(e)[:60]}
            recs.append({'id': 'same-%d' % next(nid), 'op': 'same', 'site': 'Integration.%s' % ic.FUNCS[P],
                         'in': {'law': 'ReferenceSizeInvariance', 'c': common.rat(c), 'P': P, 'mode': case['mode'] + '/' + variant, 'frozen': case['frozen']}, 'out': out})
    # (b7) "output scales with theta0" starts from the documented default theta0 = 1: after an equilibrium density was
    # built with another mutation rate in the same process, an integration that leaves theta0 at its default equals the
    # same integration with theta0 = 1 written out
    rw = random.Random(ctx.seed + 3307)
    for P in (1, 2, 3, 4, 5):
        case = ic.gen_case(rw, P, kind='normal', n={1: 12, 2: 8, 3: 6, 4: 5, 5: 4}[P], mode=rw.choice(['const', 'linear']))
        case['t0'] = 0.0
        case['frozen'] = [False] * P
        case['nomut'] = [False] * P
        xx = rand_grid(random.Random(case['grid_seed']), case['n'], case['grid_kind'])
        phi0 = rand_density(random.Random(case['phi_seed']), [case['n']] * P)
        dts = []
        for k in range(1, P + 1):
            p_ = case['par'][k - 1]
            ms = [p_['mig'][j]['c0'] for j in range(P) if j != k - 1] or [0]
            dts.append(Integration._compute_dt(np.diff(xx), p_['nu']['c0'], ms, p_['gamma']['c0'], p_['h']['c0']))
        T = rw.uniform(2.2, 4.5) * min(dts)
        f = getattr(Integration, ic.FUNCS[P])
        try:
            PhiManip.phi_1D(Numerics.default_grid(20), theta0=2.9 + P)          # another mutation rate was used earlier
            kw = _kwargs(dict(case, theta0={'c0': 1.0, 'c1': 0.0}))
            y = f(phi0.copy(), xx, T, **kw)
            kw.pop('theta0')
            x = f(phi0.copy(), xx, T, **kw)
            out = {'x': common.rats(x.ravel()), 'y': common.rats(y.ravel())}
        except Exception as e:
            out = {'raised': type(e).__name__ + ':' + str(e)[:60]}
        recs.append({'id': 'same-%d' % next(nid), 'op': 'same', 'site': 'Integration.%s' % ic.FUNCS[P],
                     'in': {'law': 'DefaultMutationRateIsOne', 'c': '1', 'P': P, 'mode': case['mode'] + '/default-theta0', 'frozen': case['frozen']}, 'out': out})
    # (b8) very large relative sizes after re-expression: every population neutral, migration-free and larger than 250
    # reference sizes in the rescaled units (c = 20 is the top of the stated interval), so that 1/(4 nu) is the ONLY thing
    # that sets the step - an absolute floor or cap in the rule would show
    rv = random.Random(ctx.seed + 3308)
    for P in (1, 2, 3):
        case = ic.gen_case(rv, P, kind='normal', n={1: 12, 2: 8, 3: 6}[P], mode=['const', 'linear', 'const'][P - 1])
        case['t0'] = 0.0
        case['layout'] = 'C'
        case['frozen'] = [False] * P
        case['nomut'] = [False] * P
        for p_ in case['par']:
            p_['nu'] = {'c0': rv.uniform(14.0, 20.0), 'c1': 0.0}
            p_['gamma'] = {'c0': 0.0, 'c1': 0.0}
            p_['mig'] = [{'c0': 0.0, 'c1': 0.0, 'const': True} for _ in p_['mig']]
        xx = rand_grid(random.Random(case['grid_seed']), case['n'], case['grid_kind'])
        phi0 = rand_density(random.Random(case['phi_seed']), [case['n']] * P)
        dts = [Integration._compute_dt(np.diff(xx), p_['nu']['c0'], [0], 0.0, 0.5) for p_ in case['par']]
        T = rv.uniform(2.3, 3.7) * min(dts)
        f = getattr(Integration, ic.FUNCS[P])
        for c in (20.0, 1.0 / 20.0):
            try:
                x = f(phi0.copy(), xx, T * c, **_kwargs(case, scale=c))
                y = f(phi0.copy(), xx, T, **_kwargs(case))
                out = {'x': common.rats(x.ravel()), 'y': common.rats(y.ravel())}
            except Exception as e:
                out = {'raised': type(e).__name__ + ':' + str(e)[:60]}
            recs.append({'id': 'same-%d' % next(nid), 'op': 'same', 'site': 'Integration.%s' % ic.FUNCS[P],
                         'in': {'law': 'ReferenceSizeInvariance', 'c': common.rat(c), 'P': P, 'mode': case['mode'] + '/all-sizes-large', 'frozen': case['frozen']}, 'out': out})
    # (b9) linearity across the two routes with the nomut flags set: one operand's theta0 a number (constant-parameter
    # route), the other's a function of time (time-dependent route), nomut1 != nomut2
    for k, (nm1, nm2) in enumerate(((True, False), (False, True))):
        case = ic.gen_case(rv, 2, kind='normal', n=8, mode='const')
        case['t0'] = 0.0
        case['layout'] = 'C'
        case['frozen'] = [False, False]
        case['nomut'] = [nm1, nm2]
        xx = rand_grid(random.Random(case['grid_seed']), case['n'], case['grid_kind'])
        phi1 = rand_density(random.Random(case['phi_seed']), [8, 8])
        phi2 = rand_density(random.Random(case['phi_seed'] + 1), [8, 8])
        dts = []
        for kk in range(1, 3):
            p_ = case['par'][kk - 1]
            ms = [p_['mig'][j]['c0'] for j in range(2) if j != kk - 1] or [0]
            dts.append(Integration._compute_dt(np.diff(xx), p_['nu']['c0'], ms, p_['gamma']['c0'], p_['h']['c0']))
        T = rv.uniform(2.2, 4.5) * min(dts)
        a, b, th1, th2 = 1.0, 1.0, 1.3, 0.8
        try:
            kw1 = _kwargs(dict(case, theta0={'c0': th1, 'c1': 0.0}))                       # constant route
            kw2 = _kwargs(dict(case, theta0={'c0': th2, 'c1': 0.0}))
            kw2['theta0'] = (lambda t, v=th2: v)                                           # time-dependent route
            kw3 = _kwargs(dict(case, theta0={'c0': a * th1 + b * th2, 'c1': 0.0}))
            if k == 1:
                kw3['theta0'] = (lambda t, v=a * th1 + b * th2: v)
            o1 = Integration.two_pops(phi1.copy(), xx, T, **kw1)
            o2 = Integration.two_pops(phi2.copy(), xx, T, **kw2)
            o3 = Integration.two_pops(a * phi1 + b * phi2, xx, T, **kw3)
            out = {'o1': common.rats(o1.ravel()), 'o2': common.rats(o2.ravel()), 'o3': common.rats(o3.ravel())}
        except Exception as e:
            out = {'raised': type(e).__name__ + ':' + str(e)[:60]}
        recs.append({'id': 'linear-%d' % next(nid), 'op': 'linear', 'site': 'Integration.two_pops',
                     'in': {'a': common.rat(a), 'b': common.rat(b), 'P': 2, 'mode': 'mixed-routes/nomut', 'frozen': case['frozen'], 'nomut': case['nomut']}, 'out': out})
    # (c) whole models built from the public API: equilibrium, size change, split, migration, selection, admixture
    for r in range(8 if ctx.quick else 60):
        recs.append(model_record(rng, nid))
    return recs


def model_record(rng, nid):
    import dadi
    from dadi import Integration, PhiManip, Numerics
    n = rng.choice([10, 14])
    xx = Numerics.default_grid(n)
    nu0 = rng.choice([1.0, loguni(rng, 0.1, 10)])
    gam = rng.choice([0.0, rng.uniform(-4, 4)])
    h = rng.choice([0.5, 0.5, rng.random()])
    th = rng.uniform(0.5, 3)
    nuA, T1 = loguni(rng, 0.2, 5), rng.uniform(0.002, 0.01)
    nu1, nu2b, T2 = loguni(rng, 0.2, 5), loguni(rng, 0.2, 5), rng.uniform(0.002, 0.01)
    m12, m21 = rng.choice([0.0, rng.uniform(0.1, 5)]), rng.uniform(0.1, 5)
    g1, g2 = gam, rng.choice([gam, 0.0, rng.uniform(-3, 3)])
    f_adm = rng.random()
    pulse, f_pulse = rng.random() < 0.5, rng.random()
    T3 = rng.uniform(0.001, 0.006)
    depth = rng.choice([1, 2, 3])
    c = rng.choice([0.05, 1 / 3., 3.0, 7.3, 20.0, loguni(rng, 0.05, 20)])
    ns = [rng.randint(2, 6) for _ in range(3)]

    def model(s):
        phi = PhiManip.phi_1D(xx, nu=nu0 * s, theta0=th / s, gamma=gam / s, h=h)
        phi = Integration.one_pop(phi, xx, T1 * s, nu=nuA * s, gamma=gam / s, h=h, theta0=th / s)
        if depth == 1:
            return phi, dadi.Spectrum.from_phi(phi, ns[:1], (xx,))
        phi = PhiManip.phi_1D_to_2D(xx, phi)
        nu2f = lambda t: nu2b * s * math.exp(0.5 * t / (T2 * s))
        phi = Integration.two_pops(phi, xx, T2 * s, nu1=nu1 * s, nu2=nu2f, m12=m12 / s, m21=m21 / s, gamma1=g1 / s, gamma2=g2 / s, h1=h, h2=0.5, theta0=th / s)
        if pulse:
            phi = PhiManip.phi_2D_admix_1_into_2(phi, f_pulse, xx, xx)
        if depth == 2:
            return phi, dadi.Spectrum.from_phi(phi, ns[:2], (xx, xx))
        phi = PhiManip.phi_2D_to_3D_admix(phi, f_adm, xx, xx, xx)
        phi = Integration.three_pops(phi, xx, T3 * s, nu1=nu1 * s, nu2=nu2b * s, nu3=0.7 * s, m13=1.1 / s, m31=0.4 / s, m23=0.2 / s,
                                     gamma1=g1 / s, gamma2=g2 / s, gamma3=g1 / s, h1=h, theta0=th / s)
        return phi, dadi.Spectrum.from_phi(phi, ns, (xx, xx, xx))
    try:
        px, fx = model(c)
        py, fy = model(1.0)
        out = {'x': common.rats(np.concatenate([px.ravel(), fx.data.ravel()])), 'y': common.rats(np.concatenate([py.ravel(), fy.data.ravel()]))}
    except Exception as e:
        out = {'raised': type(e).__name__ + ':' + str(e)[:60]}
    site = 'PhiManip.phi_1D+Integration' if (nu0 != 1.0 and gam != 0.0) else 'model(depth=%d)' % depth
    return {'id': 'model-%d' % next(nid), 'op': 'same', 'site': site,
            'in': {'law': 'ReferenceSizeInvariance', 'c': common.rat(c), 'depth': depth, 'nu0': common.rat(nu0), 'gamma': common.rat(gam), 'h': common.rat(h)}, 'out': out}


def mutate(rec):
    from fractions import Fraction
    o = rec['out']
    if 'raised' in o:
        return None
    d = o['o3'] if rec['op'] == 'linear' else o['x']
    cand = [j for j in range(len(d)) if Fraction(d[j]) != 0]
    if not cand:
        return None
    j = max(cand, key=lambda q: abs(Fraction(d[q])))
    d[j] = common.rat(Fraction(d[j]) * Fraction(1000001, 1000000))
    return rec


def run(ctx):
    rng = random.Random(ctx.seed + 3)
    nid = itertools.count()
    if ctx.replay:
        recs = [ctx.replay_payload['payload']['record']]
        ctx.no_mc = True
    else:
        recs = records(ctx, rng, nid)
    return common.pipeline(
        ctx, [('SchemeMC', 'SchemeMC_C03_%s.cfg' % ctx.tier)], 'Trace_Relations', recs, mutator=mutate,
        nontrivial_of=lambda r: (r['op'], r['site'], r['in'].get('mode'), r['in'].get('c'), tuple(r['in'].get('frozen', ())), r['in'].get('depth')),
        rule='linearity triples and (model, rescaled model) pairs for all five integrators with constant and time-varying parameters, random frozen/nomut '
             'flags, c in {1/20,1/3,3,7.3,20} U random in [0.05,20]; whole models: equilibrium (nu0 possibly != 1, selection, dominance) -> one_pop -> split -> '
             'two_pops with exponential growth, migration, selection -> admixture -> three_pops -> from_phi',
        assumptions=['the relation is decided by TLC on exact values; tolerance 1e-10 relative to the largest entry',
                     'SchemeMC shows on the specification that rescaling the reference size rescales every line system and the time-step bound by 1/c'])
