------------------------------ MODULE Godambe ------------------------------
(***************************************************************************)
(* Property C19: the uncertainty machinery of dadi.Godambe.                *)
(*                                                                         *)
(*  1. the documented step rule and the finite-difference stencils of      *)
(*     get_hess / get_grad, applied to an exactly known function;          *)
(*  2. closed forms of Hessian, scores, J, Godambe matrix, uncertainties,  *)
(*     LRT adjustment, Wald and score statistics for a Poisson likelihood  *)
(*     whose mean is linear in the parameters (optionally multiplied by a  *)
(*     fitted theta, the "multinom" augmentation), with explicit O(eps^2)  *)
(*     truncation bounds for the central stencils;                         *)
(*  3. the weighted chi-square mixture tail and its scalar/array rule;     *)
(*  4. the module-level spectrum cache as a state machine.                 *)
(*                                                                         *)
(* Everything is exact rational arithmetic (module Rat).  Vectors are      *)
(* sequences, matrices sequences of rows.                                  *)
(***************************************************************************)
EXTENDS Rat, Integers, Sequences, FiniteSets, TLC

(***************************************************************************)
(* small exact linear algebra                                              *)
(***************************************************************************)
\* TLC builds [i \in S |-> e] lazily and would re-evaluate e at every application; Vec / Mat force the
\* entries once (TLCEval is the identity as far as the meaning is concerned)
Vec(n, Op(_))       == TLCEval([i \in 1..n |-> Op(i)])
Mat(n, m, Op(_, _)) == TLCEval([i \in 1..n |-> TLCEval([j \in 1..m |-> Op(i, j)])])
VAdd(u, v)   == Vec(Len(u), LAMBDA i : RAdd(u[i], v[i]))
VSub(u, v)   == Vec(Len(u), LAMBDA i : RSub(u[i], v[i]))
VScale(c, u) == Vec(Len(u), LAMBDA i : RMul(c, u[i]))
VAbs(u)      == Vec(Len(u), LAMBDA i : RAbs(u[i]))
VZero(n)     == Vec(n, LAMBDA i : "0")
MRows(A)     == Len(A)
MCols(A)     == Len(A[1])
MMul(A, B)   == Mat(Len(A), Len(B[1]), LAMBDA i, j : RSum([k \in 1..Len(B) |-> RMul(A[i][k], B[k][j])]))
MVec(A, v)   == Vec(Len(A), LAMBDA i : RDot(A[i], v))
MAdd(A, B)   == Mat(Len(A), Len(A[1]), LAMBDA i, j : RAdd(A[i][j], B[i][j]))
MScale(c, A) == Mat(Len(A), Len(A[1]), LAMBDA i, j : RMul(c, A[i][j]))
MAbs(A)      == Mat(Len(A), Len(A[1]), LAMBDA i, j : RAbs(A[i][j]))
MT(A)        == Mat(Len(A[1]), Len(A), LAMBDA i, j : A[j][i])
MZero(n)     == Mat(n, n, LAMBDA i, j : "0")
MId(n)       == Mat(n, n, LAMBDA i, j : IF i = j THEN "1" ELSE "0")
Outer(u, v)  == Mat(Len(u), Len(v), LAMBDA i, j : RMul(u[i], v[j]))
MTrace(A)    == RSum([i \in 1..Len(A) |-> A[i][i]])
MSub(A, idx) == Mat(Len(idx), Len(idx), LAMBDA i, j : A[idx[i]][idx[j]])       \* principal sub-matrix
VSubIdx(v, idx) == Vec(Len(idx), LAMBDA i : v[idx[i]])
Quad(u, A, v) == RDot(u, MVec(A, v))                                                    \* u^T A v
MaxRowSum(A) == LET RECURSIVE go(_, _)
                    go(i, m) == IF i > Len(A) THEN m ELSE go(i + 1, RMax(m, RSum(VAbs(A[i]))))
                IN go(1, "0")
Minor(A, r, c) == Mat(Len(A) - 1, Len(A) - 1, LAMBDA i, j : A[IF i < r THEN i ELSE i + 1][IF j < c THEN j ELSE j + 1])
Sgn(k) == IF k % 2 = 0 THEN "1" ELSE "-1"
RECURSIVE Det(_)
Det(A) == IF Len(A) = 1 THEN A[1][1]
          ELSE RSum([j \in 1..Len(A) |-> RMul(Sgn(1 + j), RMul(A[1][j], Det(Minor(A, 1, j))))])
Invertible(A) == ~RIsZero(Det(A))
MInv(A) == IF Len(A) = 1 THEN <<<<RDiv("1", A[1][1])>>>>
           ELSE LET dt == Det(A) IN Mat(Len(A), Len(A), LAMBDA i, j : RDiv(RMul(Sgn(i + j), Det(Minor(A, j, i))), dt))
IsSym(A) == \A i, j \in 1..Len(A) : A[i][j] = A[j][i]

(***************************************************************************)
(* 1. step rule and stencils                                               *)
(*                                                                         *)
(* "eps: fractional step size.  If eps*param is < 1e-6, the step size for  *)
(* that parameter will simply be eps."  In that case, and for a parameter  *)
(* equal to zero, one-sided differences are taken.  (Taken literally, as   *)
(* the code does, this includes every negative parameter.)                 *)
(***************************************************************************)
Tiny == "1/1000000"
OneSided(p, eps) == RLt(RMul(p, eps), Tiny) \/ RIsZero(p)
StepLen(p, eps)  == IF OneSided(p, eps) THEN eps ELSE RMul(eps, p)
Steps(p, eps)    == Vec(Len(p), LAMBDA i : StepLen(p[i], eps))
Sided(p, eps)    == Vec(Len(p), LAMBDA i : OneSided(p[i], eps))
\* The rule is documented for (and evaluated in) double precision: eps*param and 1e-6 are both rounded, so for a
\* parameter whose exact product lies within a few units of the last place of the threshold the comparison may fall
\* either way.  There (and only there) either stencil is a legitimate choice - but the choice is made once per
\* parameter: evaluation points AND divisor belong to the same stencil, in every element the parameter takes part in.
TieBand == "1/1000000000000000"
NearTie(p, eps) == ~RIsZero(p) /\ RLeq(RAbs(RSub(RMul(p, eps), Tiny)), RMul(TieBand, Tiny))
SidedChoices(p, eps) == {one \in [1..Len(p) -> BOOLEAN] : \A i \in 1..Len(p) : NearTie(p[i], eps) \/ one[i] = OneSided(p[i], eps)}
StepsWith(p, eps, one) == Vec(Len(p), LAMBDA i : IF one[i] THEN eps ELSE RMul(eps, p[i]))

Shift(p, i, d)         == [p EXCEPT ![i] = RAdd(p[i], d)]
Shift2(p, i, di, j, dj) == Shift(Shift(p, i, di), j, dj)

\* element (i,j) of the finite-difference Hessian of F at p
HessElem(F(_), p, h, one, i, j) ==
    IF i = j THEN
        IF ~one[i]
        THEN RDiv(RAdd(RSub(F(Shift(p, i, h[i])), RMul("2", F(p))), F(Shift(p, i, RNeg(h[i])))), RSq(h[i]))
        ELSE RDiv(RAdd(RSub(F(Shift(p, i, RMul("2", h[i]))), RMul("2", F(Shift(p, i, h[i])))), F(p)), RSq(h[i]))
    ELSE
        IF ~one[i] /\ ~one[j]
        THEN RDiv(RAdd(RSub(RSub(F(Shift2(p, i, h[i], j, h[j])), F(Shift2(p, i, h[i], j, RNeg(h[j])))),
                            F(Shift2(p, i, RNeg(h[i]), j, h[j]))), F(Shift2(p, i, RNeg(h[i]), j, RNeg(h[j])))),
                  RMul("4", RMul(h[i], h[j])))
        ELSE RDiv(RAdd(RSub(RSub(F(Shift2(p, i, h[i], j, h[j])), F(Shift(p, i, h[i]))), F(Shift(p, j, h[j]))), F(p)),
                  RMul(h[i], h[j]))
HessFDWith(F(_), p, eps, one) == LET h == StepsWith(p, eps, one) IN
    Mat(Len(p), Len(p), LAMBDA i, j : HessElem(F, p, h, one, i, j))
HessFD(F(_), p, eps) == HessFDWith(F, p, eps, Sided(p, eps))
GradElem(F(_), p, h, one, i) ==
    IF ~one[i] THEN RDiv(RSub(F(Shift(p, i, h[i])), F(Shift(p, i, RNeg(h[i])))), RMul("2", h[i]))
    ELSE RDiv(RSub(F(Shift(p, i, h[i])), F(p)), h[i])
GradFDWith(F(_), p, eps, one) == LET h == StepsWith(p, eps, one) IN Vec(Len(p), LAMBDA i : GradElem(F, p, h, one, i))
GradFD(F(_), p, eps) == GradFDWith(F, p, eps, Sided(p, eps))

\* the test functions: f(x) = 1/2 x^T Q x + b^T x + c   (Q symmetric)
QEval(f, x)  == RAdd(RAdd(RHalf(Quad(x, f.Q, x)), RDot(f.b, x)), f.c)
QGrad(f, x)  == VAdd(MVec(f.Q, x), f.b)
QIsLinear(f) == \A i, j \in 1..Len(f.Q) : RIsZero(f.Q[i][j])
\* magnitude of the terms of f over the stencil (scale of the float evaluation error)
QMag(f, p, h) == LET z == Vec(Len(p), LAMBDA i : RAdd(RAbs(p[i]), RMul("2", h[i]))) IN
                 RAdd(RAdd(RHalf(Quad(z, MAbs(f.Q), z)), RDot(VAbs(f.b), z)), RAbs(f.c))

(***************************************************************************)
(* 2. Poisson likelihood with mean linear (affine) in the parameters       *)
(*                                                                         *)
(* md = [B0 |-> fixed component, B |-> <<B_1..B_k>> (basis vectors over    *)
(*       the entries), p |-> <<p_1..p_k>>, multinom |-> BOOLEAN,           *)
(*       live |-> <<BOOLEAN..>> (entry carries likelihood)]                *)
(* lin_i = B0[i] + sum_a p_a B_a[i];  mean_i = lin_i, or with multinom     *)
(* mean_i = theta * lin_i with parameter vector q = p \o <<theta>> and     *)
(* theta the optimal scaling sum(d)/sum(lin) over the live entries.        *)
(* ll(q; d, adj) = sum_live  -adj*mean + d ln(adj*mean) - lnGamma(d+1)     *)
(***************************************************************************)
LiveSet(md)   == {i \in 1..Len(md.live) : md.live[i]}
Lin(md, i)    == RAdd(md.B0[i], RSum([a \in 1..Len(md.p) |-> RMul(md.p[a], md.B[a][i])]))
ThetaFit(md, d) == RDiv(RSum([i \in LiveSet(md) |-> d[i]]), RSum([i \in LiveSet(md) |-> Lin(md, i)]))
NPar(md)      == Len(md.p) + (IF md.multinom THEN 1 ELSE 0)
\* q: the full parameter vector (theta last when multinom)
ParVec(md, th) == IF md.multinom THEN md.p \o <<th>> ELSE md.p
\* Folded data (minor-allele spectra: entry i and its mirror n+1-i are indistinguishable) are compared with the folded
\* model: mirror entries summed into the lower one, the middle entry kept, the upper half empty.  Folding is linear, so
\* the folded model is again linear in the parameters, with folded components.
FoldVec(v)    == LET n == Len(v) IN Vec(n, LAMBDA i : IF i < n + 1 - i THEN RAdd(v[i], v[n + 1 - i]) ELSE IF i = n + 1 - i THEN v[i] ELSE "0")
LowerHalf(n)  == {i \in 1..n : i <= n + 1 - i}
FoldModel(md) == [md EXCEPT !.B0 = FoldVec(md.B0), !.B = [a \in 1..Len(md.B) |-> FoldVec(md.B[a])],
                            !.live = [i \in 1..Len(md.live) |-> md.live[i] /\ i \in LowerHalf(Len(md.live))]]
\* the "design" of the model at (p, theta), computed once: means, first derivatives of the mean, live entries
Design(md, th) ==
    LET n == Len(md.live) k == Len(md.p)
        lin == Vec(n, LAMBDA i : Lin(md, i))
    IN  [mu   |-> IF md.multinom THEN VScale(th, lin) ELSE lin,
         d1   |-> Mat(NPar(md), n, LAMBDA a, i : IF a <= k THEN (IF md.multinom THEN RMul(th, md.B[a][i]) ELSE md.B[a][i]) ELSE lin[i]),
         live |-> LiveSet(md), K |-> NPar(md), k |-> k, multinom |-> md.multinom, B |-> md.B, q |-> ParVec(md, th)]
\* second derivative of the mean (only theta x p_a is non-zero)
D2(ds, a, b, i)  == IF ds.multinom /\ a = ds.k + 1 /\ b <= ds.k THEN ds.B[b][i]
                    ELSE IF ds.multinom /\ b = ds.k + 1 /\ a <= ds.k THEN ds.B[a][i] ELSE "0"
\* d_i / mu_i over the entries (0 outside the live set)
Ratio(ds, d) == Vec(Len(ds.mu), LAMBDA i : IF i \in ds.live THEN RDiv(d[i], ds.mu[i]) ELSE "0")
\* gradient of ll with respect to q
ScoreVec(ds, d, adj) ==
    LET rt == Ratio(ds, d) IN Vec(ds.K, LAMBDA a : RSum([i \in ds.live |-> RMul(RSub(rt[i], adj), ds.d1[a][i])]))
\* observed information: minus the second derivative of ll (adj = 1)
InfoMat(ds, d) ==
    LET rt == Ratio(ds, d)
        w  == Vec(Len(ds.mu), LAMBDA i : IF i \in ds.live THEN RDiv(rt[i], ds.mu[i]) ELSE "0")        \* d / mu^2
    IN  Mat(ds.K, ds.K, LAMBDA a, b :
            RSum([i \in ds.live |-> RSub(RMul(w[i], RMul(ds.d1[a][i], ds.d1[b][i])), RMul(RSub(rt[i], "1"), D2(ds, a, b, i)))]))
\* J = mean over bootstraps of score score^T, cU = mean score
MeanOf(seq) == LET n == Len(seq) RECURSIVE go(_, _)
                   go(k, acc) == IF k > n THEN acc ELSE go(k + 1, MAdd(acc, seq[k]))
               IN MScale(RDiv("1", RInt(n)), go(2, seq[1]))
JMat(ds, boots, adj) == MeanOf(TLCEval([k \in 1..Len(boots) |-> LET g == ScoreVec(ds, boots[k], adj[k]) IN Outer(g, g)]))
CUVec(ds, boots, adj) == MeanOf(TLCEval([k \in 1..Len(boots) |-> <<ScoreVec(ds, boots[k], adj[k])>>]))[1]
GodambeMat(H, J) == MMul(MMul(H, MInv(J)), H)

\* ---- truncation and round-off bounds of the central stencils (all parameters positive, central) ----
\* positive parts of information and score (every term of the derivative sums, in magnitude)
InfoPos(ds, d) ==
    LET w == Vec(Len(ds.mu), LAMBDA i : IF i \in ds.live THEN RDiv(d[i], RSq(ds.mu[i])) ELSE "0") IN
    Mat(ds.K, ds.K, LAMBDA a, b : RSum([i \in ds.live |-> RMul(w[i], RAbs(RMul(ds.d1[a][i], ds.d1[b][i])))]))
ScorePos(ds, d) ==
    LET rt == Ratio(ds, d) IN Vec(ds.K, LAMBDA a : RSum([i \in ds.live |-> RMul(rt[i], RAbs(ds.d1[a][i]))]))
\* rational upper bound of sum |terms of ll|:  |ln x| <= x + 1/x,  |lnGamma(d+1)| <= d + d^2
LLMagBound(ds, d, adj) ==
    RSum([i \in ds.live |-> LET m == RMul(adj, ds.mu[i]) IN
            RAdd(RAdd(m, RMul(d[i], RAdd(m, RDiv("1", m)))), RAdd(d[i], RSq(d[i])))])
\* |central second difference - second derivative| <= CH eps^2 InfoPos  (fourth derivative, points within (1 +- eps) q)
CH(eps) == RDiv("2", RPow(RSub("1", eps), 4))
\* |central first difference - first derivative|  <= CG eps^2 ScorePos
CG(eps) == RDiv("1/3", RPow(RSub("1", eps), 3))
ErrInfo(ds, d, eps, tauFD) ==
    LET c2 == RMul(CH(eps), RSq(eps))
        ro == RMul(tauFD, LLMagBound(ds, d, "1"))
        ip == InfoPos(ds, d)
    IN  Mat(ds.K, ds.K, LAMBDA a, b :
            RAdd(RMul(c2, ip[a][b]), RDiv(ro, RMul(RMul(eps, ds.q[a]), RMul(eps, ds.q[b])))))
ErrScore(ds, d, adj, eps, tauFD) ==
    LET c2 == RMul(CG(eps), RSq(eps))
        ro == RMul(tauFD, LLMagBound(ds, d, adj))
        sp == ScorePos(ds, d)
    IN  Vec(ds.K, LAMBDA a : RAdd(RMul(c2, sp[a]), RDiv(ro, RMul(eps, ds.q[a]))))
\* propagation (entrywise bounds, E_X >= |X_observed - X|)
ErrProd(X, EX, Y, EY) == MAdd(MAdd(MMul(EX, MAbs(Y)), MMul(MAbs(X), EY)), MMul(EX, EY))
\* (X+E)^-1 - X^-1 = -X^-1 E (X+E)^-1 : with rho = ||  |X^-1| E_X ||_inf <= 1/4 the bound 2 |X^-1| E_X |X^-1| holds
InvRho(X, EX) == MaxRowSum(MMul(MAbs(MInv(X)), EX))
InvResolvable(X, EX) == Invertible(X) /\ RLeq(InvRho(X, EX), "1/4")
ErrInv(X, EX) == LET Xi == MAbs(MInv(X)) IN MScale("2", MMul(MMul(Xi, EX), Xi))
ErrJ(gs, egs) == MeanOf([k \in 1..Len(gs) |-> LET g == VAbs(gs[k]) e == egs[k] IN
                            MAdd(MAdd(Outer(g, e), Outer(e, g)), Outer(e, e))])
ErrQuad(u, eu, A, EA) ==      \* bound for u^T A u with errors in both
    LET ua == VAbs(u) w == VAdd(ua, eu) IN
    RAdd(Quad(w, EA, w), RAdd(Quad(eu, MAbs(A), w), Quad(ua, MAbs(A), eu)))

(***************************************************************************)
(* 3. weighted sum of chi-square distributions: tail probability           *)
(*    w = <<w_0, w_1, ...>> weights by degrees of freedom; cdf[d] = chi^2_d cdf at x *)
(***************************************************************************)
Chi2MixTail(x, w, cdf) ==
    RSub("1", RAdd(RSum([d \in 1..(Len(w) - 1) |-> RMul(w[d + 1], cdf[d])]), IF RPos(x) THEN w[1] ELSE "0"))

(***************************************************************************)
(* 4. the spectrum cache                                                   *)
(*                                                                         *)
(* Function objects live at addresses; an address is free for reuse when   *)
(* no live object occupies it.  A cache entry maps a key (function key,    *)
(* parameter point) to the spectrum computed for it, represented by        *)
(* <<model, point>> (what was evaluated).  Specified design: the function  *)
(* key is the function object itself, so the cache keeps the object alive  *)
(* and its address cannot be handed to another function.  KeyHoldsRef =    *)
(* FALSE describes a key that is only a number derived from the address.   *)
(***************************************************************************)
\* A parameter point is a tuple of components (for a real call <<params, ns, grid_pts>>: everything the model function
\* is evaluated with).  The specified key contains the function object and EVERY component of the point; parts = the
\* set of components a key is built from (KeyPartsFull for a point of three components).  A key that leaves a
\* component out serves the spectrum of another point (GodambeMC_cache_dropgrid.cfg: rejected by TLC).
KeyPartsFull == {1, 2, 3}
KeyOf(obj, pt, parts)          == <<obj.addr, [c \in parts |-> pt[c]]>>
ServedK(cache, obj, pt, parts) == IF KeyOf(obj, pt, parts) \in DOMAIN cache THEN cache[KeyOf(obj, pt, parts)] ELSE <<obj.model, pt>>
CachePutK(cache, obj, pt, parts) == IF KeyOf(obj, pt, parts) \in DOMAIN cache THEN cache
                                    ELSE [k \in DOMAIN cache \cup {KeyOf(obj, pt, parts)} |->
                                             IF k = KeyOf(obj, pt, parts) THEN <<obj.model, pt>> ELSE cache[k]]
\* points of one component (the call histories of Trace_Godambe name a point by the statistic that is evaluated)
CacheKey(obj, pt)        == KeyOf(obj, <<pt>>, {1})
Served(cache, obj, pt)   == LET s == ServedK(cache, obj, <<pt>>, {1}) IN <<s[1], s[2][1]>>
CachePut(cache, obj, pt) == CachePutK(cache, obj, <<pt>>, {1})
Referenced(cache, obj)   == \E k \in DOMAIN cache : k[1] = obj.addr
\* may the object be reclaimed once the caller drops it?
Reclaimable(cache, obj, keyHoldsRef) == ~(keyHoldsRef /\ Referenced(cache, obj))
Coherent(served, obj, pt) == served = <<obj.model, pt>>
=============================================================================
