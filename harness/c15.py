"""C15 - library models are well-formed and reduce to their nested cases
(spec/DemoMachine.tla, spec/DemoMachineMC.tla, spec/Trace_DemoMachine.tla).

Every model evaluation runs under call proxies placed around the PhiManip / Integration / Spectrum.from_phi
functions; one event per demographic-machine action is logged with the exact argument values *as passed*.
TLC replays the events through the DemoMachine state machine and decides every clause: well-formedness,
arity, output shape / finite / non-negative / extrap_x, Norm(trace A) = Norm(trace B) for nesting pairs
(and then equality of the recorded spectra), parameter influence, label-swap equivariance as a refinement
relation between two time-step scales.  The same relations are evaluated at tied parameter vectors (tie_groups: exactly
equal sizes / durations / rates, one rate exactly 0), which a generic draw never produces.  Nothing is judged here.
"""
import copy, hashlib, inspect, itertools, json, math, os, random, sys
import numpy as np
from . import common
from .common import rat, rats

PROP = 'C15'
TRACE_SPEC = 'Trace_DemoMachine'
TABLE = os.path.join(os.path.dirname(os.path.abspath(__file__)), 'nesting_table.json')
MODULES = ['dadi.Demographics1D', 'dadi.Demographics2D', 'dadi.Demographics3D',
           'dadi.PortikModels.portik_models_2d', 'dadi.PortikModels.portik_models_3d', 'dadi.DFE.DemogSelModels']
# fractions of the integration interval at which a time-function argument is sampled
FN_SAMPLES = (0.0, 0.25, 0.5, 1.0)
TS_COARSE, TS_FINE = 2.5e-4, 1.5625e-5     # dadi.Integration.timescale_factor for the swap refinement (16-fold; the ratio demanded is in Trace_DemoMachine.cfg)


# --------------------------------------------------------------------------
# census
# --------------------------------------------------------------------------
def census():
    """[(qualified name, function)] for every function exposing __param_names__ defined in the six library modules."""
    import importlib
    out = []
    for mn in MODULES:
        m = importlib.import_module(mn)
        seen = set()
        for n, f in vars(m).items():
            if inspect.isfunction(f) and hasattr(f, '__param_names__') and f.__module__ == mn and id(f) not in seen:
                seen.add(id(f))
                out.append(('%s.%s' % (mn.split('.')[-1], f.__name__), f))
    return out


def is_mscore(f):
    return 'ns' not in inspect.signature(f).parameters


_NDIM = {}


def ndim_of(qname, f):
    """Number of populations of the spectrum a model returns: from the module it lives in, else by probing."""
    mod = qname.split('.')[0]
    if mod == 'Demographics1D':
        return 1
    if mod in ('Demographics2D', 'portik_models_2d'):
        return 2
    if mod in ('Demographics3D', 'portik_models_3d'):
        return 3
    if qname not in _NDIM:
        p = [0.5 + 0.01 * k for k in range(len(f.__param_names__))]
        for P in (1, 2, 3, 4, 5):
            try:
                with np.errstate(all='ignore'):
                    if np.ndim(f(tuple(p), (2,) * P, 5)) == P:
                        _NDIM[qname] = P
                        break
            except Exception:
                continue
        else:
            # the model cannot be evaluated at all on this tree (that is reported as a violation where it is evaluated);
            # infer the number of populations from the signature instead of stopping the run
            names = ' '.join(f.__param_names__) + ' ' + qname.split('.')[-1]
            _NDIM[qname] = 3 if any(t in names for t in ('nu3', 'm13', 'm23', 'T3')) else \
                2 if any(t in names for t in ('nu2', 'm12', 'm21', 'gamma2', 'split', 'IM', ' m ', 'mig')) else 1
    return _NDIM[qname]


# --------------------------------------------------------------------------
# value encoding: every argument value is {'k': kind, 'v': [strings]}
# --------------------------------------------------------------------------
def _is_number(x):
    return isinstance(x, (int, float, np.integer, np.floating)) and not isinstance(x, (bool, np.bool_))


def enc_val(x, t0=None, t1=None):
    if isinstance(x, (bool, np.bool_)):
        return {'k': 'b', 'v': ['T' if x else 'F']}
    if _is_number(x):
        return {'k': 'c', 'v': [rat(x)]}
    if x is None:
        return {'k': 'n', 'v': []}
    if callable(x):
        if t0 is None or t1 is None or not (t1 > t0):
            return {'k': 't', 'v': ['unevaluated']}       # a zero-length integration never evaluates it
        vals = []
        try:
            with np.errstate(all='ignore'):
                for fr in FN_SAMPLES:
                    vals.append(rat(float(x(t0 + fr * (t1 - t0)))))
        except Exception as ex:
            return {'k': 't', 'v': ['raises:' + type(ex).__name__]}
        return {'k': 'f', 'v': vals}
    if isinstance(x, (list, tuple, np.ndarray)) and len(x) and all(_is_number(v) for v in x):
        return {'k': 's', 'v': [rat(v) for v in x]}
    return {'k': 'o', 'v': [repr(x)[:40]]}


GRID_NAMES = ('xx', 'yy', 'zz', 'aa', 'bb', 'cc')
PHI_NAMES = ('phi', 'phi_1D', 'phi_2D', 'phi_3D', 'phi_4D', 'phi_5D')
INT_LIST_NAMES = ('ns', 'neworder', 'tokeep', 'ploidys')


def enc_grid(xx):
    xx = np.asarray(xx, dtype=float)
    return {'n': int(len(xx)), 'x1': rat(xx[1]) if len(xx) > 1 else 'none', 'dig': hashlib.sha256(xx.tobytes()).hexdigest()[:12]}


# --------------------------------------------------------------------------
# the recorder: proxies around dadi's demographic primitives
# --------------------------------------------------------------------------
PHIMANIP_FUNCS = ['phi_1D', 'phi_1D_genic', 'phi_1D_snm', 'phi_1D_X', 'phi_1D_to_2D', 'phi_2D_to_3D_split_1', 'phi_2D_to_3D_split_2',
                  'phi_2D_to_3D_admix', 'phi_2D_to_3D', 'phi_3D_to_4D', 'phi_4D_to_5D',
                  'phi_2D_admix_1_into_2', 'phi_2D_admix_2_into_1', 'phi_3D_admix_1_and_2_into_3', 'phi_3D_admix_1_and_3_into_2',
                  'phi_3D_admix_2_and_3_into_1', 'phi_4D_admix_into_1', 'phi_4D_admix_into_2', 'phi_4D_admix_into_3', 'phi_4D_admix_into_4',
                  'phi_5D_admix_into_1', 'phi_5D_admix_into_2', 'phi_5D_admix_into_3', 'phi_5D_admix_into_4', 'phi_5D_admix_into_5',
                  'remove_pop', 'filter_pops', 'reorder_pops']
INTEGRATION_FUNCS = ['one_pop', 'two_pops', 'three_pops', 'four_pops', 'five_pops']
SPECTRUM_FUNCS = ['from_phi', 'from_phi_inbreeding']


class Recorder:
    """Context manager: while active, every outermost call of a proxied primitive appends one event."""

    def __init__(self, tid):
        self.tid = tid
        self.ev = []
        self.depth = 0
        self.n = itertools.count()
        self._saved = []

    def add(self, op, **kw):
        d = {'id': '%s-%d' % (self.tid, next(self.n)), 'tid': self.tid, 'op': op}
        d.update(kw)
        self.ev.append(d)
        return d

    def _proxy(self, name, real):
        sig = inspect.signature(real)
        rec = self

        def proxy(*a, **kw):
            if rec.depth > 0:
                return real(*a, **kw)
            try:
                bound = dict(sig.bind(*a, **kw).arguments)        # as passed: defaults are NOT filled in
            except TypeError:
                bound = None
            rec.depth += 1
            try:
                out = real(*a, **kw)
            finally:
                rec.depth -= 1
            if bound is None:
                rec.add('call', fn=name, args={}, ints={}, grids=[], phi_in=[], out_shape=[], out_finite=False, unbindable=True)
                return out
            args, ints, grids, phi_in = {}, {}, [], []
            t0 = bound.get('initial_t', 0)
            t1 = bound.get('T')
            for k, v in bound.items():
                if k in PHI_NAMES:
                    phi_in = [int(s) for s in np.shape(v)]
                elif k in GRID_NAMES:
                    grids.append(enc_grid(v))
                elif k == 'xxs':
                    grids.extend(enc_grid(g) for g in v)
                elif k in INT_LIST_NAMES:
                    ints[k] = [int(q) for q in v]
                elif k in ('deme_ids', 'pop_ids'):
                    continue                                     # labels: no numerical meaning
                else:
                    args[k] = enc_val(v, t0 if _is_number(t0) else None, t1 if _is_number(t1) else None)
            o = np.asarray(out)
            rec.add('call', fn=name, args=args, ints=ints, grids=grids, phi_in=phi_in,
                    out_shape=[int(s) for s in o.shape], out_finite=bool(np.all(np.isfinite(o))))
            return out
        proxy.__name__ = name
        proxy.__wrapped__ = real
        return proxy

    def __enter__(self):
        from dadi import PhiManip, Integration
        from dadi.Spectrum_mod import Spectrum
        for mod, names in ((PhiManip, PHIMANIP_FUNCS), (Integration, INTEGRATION_FUNCS)):
            for n in names:
                real = getattr(mod, n)
                self._saved.append((mod, n, real, False))
                setattr(mod, n, self._proxy(n, real))
        for n in SPECTRUM_FUNCS:
            real = Spectrum.__dict__[n]
            self._saved.append((Spectrum, n, real, True))
            setattr(Spectrum, n, staticmethod(self._proxy(n, real.__func__)))
        return self

    def __exit__(self, *exc):
        for mod, n, real, _ in reversed(self._saved):
            setattr(mod, n, real)
        self._saved = []
        return False


def enc_out(fs):
    """The raw observed result of a model call."""
    if isinstance(fs, str):
        return {'kind': 'str', 'len': len(fs)}
    d = np.asarray(getattr(fs, 'data', fs), dtype=float)
    m = np.asarray(getattr(fs, 'mask', np.zeros(d.shape, bool)))
    if m.shape != d.shape:
        m = np.zeros(d.shape, bool)
    ex = getattr(fs, 'extrap_x', None)
    return {'kind': type(fs).__name__, 'sh': [int(s) for s in d.shape], 'd': rats(d.ravel()), 'm': [bool(b) for b in m.ravel()],
            'extrap_x': rat(ex) if _is_number(ex) else 'none', 'folded': bool(getattr(fs, 'folded', False))}


def as_passed(params, ns, cont='tuple', num='py'):
    """The objects handed to the model: container tuple | list | array, numbers as given (Python int / float) or numpy.float64."""
    if num == 'np':
        params = [np.float64(v) for v in params]
    if cont == 'list':
        return list(params), list(ns)
    if cont == 'array':
        return np.array(params, dtype=float), np.array(ns, dtype=int)
    return tuple(params), tuple(ns)


def evaluate(qname, func, params, ns, pts, tid, slot, timescale=None, first=False, fine=False, cont='tuple', num='py', via='direct'):
    """Run one model evaluation under the proxies.  Returns the list of events begin ... end.
    via: 'direct' = func(params, ns, pts); 'ex-list' / 'ex-scalar' / 'log-list' / 'log-scalar' = the model wrapped with
    Numerics.make_extrap_func / make_extrap_log_func (how every dadi script calls a library model) and evaluated with the single
    grid size given as the one-entry list [pts] / as the scalar pts (one grid size: nothing is extrapolated)."""
    from dadi import Integration, Numerics
    rec = Recorder(tid)
    names = list(func.__param_names__)
    rec.add('begin', model=qname, names=names, params=[rat(float(p)) for p in params], nnames=len(names), ns=[int(n) for n in ns],
            pts=int(pts), slot=slot, first=bool(first), fine=bool(fine), passed='%s/%s' % (cont, num) + ('' if via == 'direct' else '/' + via), timescale=rat(timescale) if timescale else 'default')
    old_ts = Integration.timescale_factor
    if timescale:
        Integration.timescale_factor = timescale
    try:
        with rec:
            try:
                with np.errstate(all='ignore'):
                    pobj, nobj = as_passed(params, ns, cont, num)
                    if via == 'direct':
                        fs = func(pobj, nobj, pts)
                    else:
                        mk = Numerics.make_extrap_log_func if via.startswith('log') else Numerics.make_extrap_func
                        fs = mk(func)(pobj, nobj, [int(pts)] if via.endswith('list') else int(pts))
                out = enc_out(fs)
            except Exception as ex:
                out = {'raised': type(ex).__name__, 'msg': str(ex)[:80]}
    finally:
        Integration.timescale_factor = old_ts
    rec.add('end', slot=slot, out=out)
    return rec.ev


# --------------------------------------------------------------------------
# parameter generation (inside the documented bounds; moderate so that an evaluation is fast)
# --------------------------------------------------------------------------
def pclass(name):
    if name.startswith('gamma'):
        return 'gamma'
    if name.startswith('nu'):
        return 'nu'
    if name.startswith('T'):
        return 'T'
    if name.startswith('m'):
        return 'm'
    if name in ('s', 'f', 'F'):
        return name
    raise common.MachineryError('C15: parameter name %r has no class' % name)


def loguni(rng, lo, hi):
    return math.exp(rng.uniform(math.log(lo), math.log(hi)))


def draw_value(rng, name, wide=False):
    c = pclass(name)
    if c == 'nu':
        return round(loguni(rng, 0.05, 20) if wide else loguni(rng, 0.3, 4), 4)
    if c == 'T':
        return round(rng.uniform(0.01, 0.4) if wide else rng.uniform(0.03, 0.15), 4)
    if c == 'm':
        return round(rng.uniform(0.05, 6) if wide else rng.uniform(0.3, 3), 4)
    if c == 'gamma':
        return round(rng.uniform(-8, 4) if wide else rng.uniform(-3, 2), 4)
    if c == 's':
        return round(rng.uniform(0.15, 0.85), 4)
    if c == 'f':
        return round(rng.uniform(0.1, 0.9), 4)
    if c == 'F':
        return round(rng.uniform(0.05, 0.6), 4)


def draw_params(rng, names, wide=False):
    """Distinct values for distinct names (so that a mix-up of two parameters is visible)."""
    while True:
        p = [draw_value(rng, n, wide) for n in names]
        if len(set(p)) == len(p):
            return p


# --------------------------------------------------------------------------
# groups: JSON-able descriptions of what to run (so that a violation can be replayed), and their realisation
# --------------------------------------------------------------------------
_MODELS = {}


def models():
    if not _MODELS:
        for q, f in census():
            _MODELS[q] = f
    return _MODELS


def load_table():
    with open(TABLE) as f:
        return json.load(f)


def perturb(name, v):
    c = pclass(name)
    if c in ('nu', 'T', 'm'):
        return round(v * 1.37 + 0.011, 6)
    if c == 'gamma':
        return round(v + 0.73, 6)
    return round(v + 0.21 if v < 0.5 else v - 0.21, 6)


def swap_params(names, params, sw):
    d = dict(zip(names, params))
    out = []
    for n in names:
        v = d[sw['map'].get(n, n)]
        if n in sw.get('complement', ()):
            v = 1.0 - v
        out.append(v)
    return out


def nest_params(entry, rng, wide):
    """(params of A at the nesting point, params of B) for one table entry."""
    ms = models()
    fa, fb = ms[entry['A']], ms[entry['B']]
    na, nb = list(fa.__param_names__), list(fb.__param_names__)
    if isinstance(wide, str) and wide.startswith('tie:'):
        drawn = tie_params(rng, na, wide[4:])[0]
    else:
        drawn = corner_params(rng, na) if wide == 'corner' else draw_params(rng, na, wide)
    pa = dict(zip(na, drawn))
    for n, v in entry['point'].items():
        if isinstance(v, str):
            pa[n] = None
        else:
            pa[n] = float(v)
    for n, v in entry['point'].items():
        if isinstance(v, str):
            pa[n] = pa[v[1:]]                      # "=name": equal to another parameter
    pb = []
    for n in nb:
        b = entry['bind'][n]
        pb.append(pa[b] if isinstance(b, str) else float(b))
    return [pa[n] for n in na], pb


def corner_params(rng, names):
    """Every size, rate and fraction at an end point of its documented range (sizes and fractions alternate between the two ends);
    durations short and selection moderate (drawn)."""
    base = draw_swap_params(rng, names)
    return _with(names, base, nu=lambda k: NU_HI if k % 2 == 0 else NU_LO, m=M_HI, frac=lambda k: FR_LO if k % 2 == 0 else FR_HI)


def arity_obs(func, params):
    """Raw observations: does the call with the exact / one fewer / one more parameter return or raise?"""
    def call(p):
        try:
            with np.errstate(all='ignore'):
                if is_mscore(func):
                    func(tuple(p))
                else:
                    func(tuple(p), _probe_ns(func), 6)
            return True
        except Exception:
            return False
    return {'exact': call(params), 'short_raised': (not call(params[:-1])) if len(params) else True,
            'long_raised': not call(list(params) + [0.37])}


def _probe_ns(func):
    q = '%s.%s' % (func.__module__.split('.')[-1], func.__name__)
    return [2] * ndim_of(q, func)


# Parameters that are named but cannot act by the model's own documented structure: the probe 'perturbing a
# parameter changes the program' is a bug-catcher beyond the property's wording, so it must not fire on these.
# bottlegrowth_2d_sel: the populations split at the present (Ts = 0), population 2 never exists for a positive
# time, hence gamma2 has nothing to act on (same construction as Demographics2D.bottlegrowth -> bottlegrowth_split).
NO_INFLUENCE_BY_DESIGN = {('bottlegrowth_2d_sel', 'gamma2')}


def realize(g, tid):
    """Run the group description g under the proxies; returns the list of events (one trace group)."""
    ms = models()
    ev = []
    kind = g['kind']
    if kind == 'model':
        f = ms[g['model']]
        names = list(f.__param_names__)
        if not is_mscore(f):
            ev += evaluate(g['model'], f, g['params'], g['ns'], g['pts'], tid, 'base', first=True, fine=g.get('fine', True))
            if g.get('perturb'):
                # the programs of the base and of the perturbed parameter vectors are compared on a coarse grid (the events do not depend on it)
                ev += evaluate(g['model'], f, g['params'], g['ns'], PTS_PROBE[len(g['ns'])], tid, 'p', fine=False)
            for k in g.get('perturb', []):
                if (g['model'].split('.')[-1], names[k]) in NO_INFLUENCE_BY_DESIGN:
                    continue
                p2 = list(g['params'])
                p2[k] = perturb(names[k], p2[k])
                ev += evaluate(g['model'], f, p2, g['ns'], PTS_PROBE[len(g['ns'])], tid, 'p%d' % k)
                ev.append({'id': '%s-rel%d' % (tid, k), 'tid': tid, 'op': 'relate', 'kind': 'differs', 'a': 'p', 'b': 'p%d' % k, 'name': names[k]})
        obs = arity_obs(f, g['params'])
        ev.append(dict({'id': '%s-arity' % tid, 'tid': tid, 'op': 'relate', 'kind': 'arity', 'nnames': len(names), 'mscore': is_mscore(f)}, **obs))
    elif kind == 'nest':
        ev += evaluate(g['A'], ms[g['A']], g['pa'], g['ns'], g['pts'], tid, 'A', first=True)
        ev += evaluate(g['B'], ms[g['B']], g['pb'], g['ns'], g['pts'], tid, 'B')
        ev.append({'id': '%s-rel' % tid, 'tid': tid, 'op': 'relate', 'kind': 'nest', 'a': 'A', 'b': 'B'})
    elif kind == 'swap':
        f = ms[g['model']]
        perm = g['perm']
        ns2 = [g['ns'][j - 1] for j in perm]
        for lvl, ts in (('1', TS_COARSE), ('2', TS_FINE)):
            ev += evaluate(g['model'], f, g['params'], g['ns'], g['pts'], tid, 'a' + lvl, timescale=ts, first=(lvl == '1'))
            ev += evaluate(g['model'], f, g['swapped'], ns2, g['pts'], tid, 'b' + lvl, timescale=ts)
        ev.append({'id': '%s-rel' % tid, 'tid': tid, 'op': 'relate', 'kind': 'swap', 'a1': 'a1', 'b1': 'b1', 'a2': 'a2', 'b2': 'b2', 'perm': perm})
    elif kind == 'edge':
        f = ms[g['model']]
        for i, v in enumerate(g['evals']):
            ev += evaluate(g['model'], f, v['params'], v.get('ns', g['ns']), v.get('pts', g['pts']), tid, v['slot'], first=(i == 0), fine=v.get('fine', False), cont=v['cont'], num=v['num'], via=v.get('via', 'direct'))
        for k, (a, b) in enumerate(g['alike']):
            ev.append({'id': '%s-alike%d' % (tid, k), 'tid': tid, 'op': 'relate', 'kind': 'alike', 'a': a, 'b': b})
    else:
        raise common.MachineryError('C15: unknown group kind %r' % kind)
    return ev


def site_of(g):
    site = g['model'] if g['kind'] in ('model', 'swap', 'edge') else '%s>%s' % (g['A'], g['B'])
    # the groups at tied parameter vectors are a failure class of their own (a generic vector never takes an 'equal values' path)
    if g.get('wrap'):
        return site + '@extrap'           # evaluated through make_extrap_func / make_extrap_log_func with one grid size
    return site + '@ties' if g.get('tie') else site


# --------------------------------------------------------------------------
# generation of the groups of one run
# --------------------------------------------------------------------------
def draw_swap_params(rng, names):
    """The regime in which the swap refinement was calibrated (see nesting_table.json): short epochs, moderate rates."""
    while True:
        p = []
        for n in names:
            c = pclass(n)
            if c == 'nu':
                v = round(loguni(rng, 0.5, 3), 4)
            elif c == 'T':
                v = round(rng.uniform(0.02, 0.06), 4)
            elif c == 'm':
                v = round(rng.uniform(0.3, 1.5), 4)
            elif c == 'gamma':
                v = round(rng.uniform(-2, 1), 4)
            else:
                v = draw_value(rng, n)
            p.append(v)
        if len(set(p)) == len(p):
            return p


def swap_group(e, names, p, ns):
    """The swap group of table entry e at the parameter vector p."""
    P = len(e['perm'])
    # the swapped call: the parameter named n receives the original value of the name that maps to n
    inv = {e['map'].get(n, n): n for n in names}
    dd = dict(zip(names, p))
    p2 = [(1.0 - dd[inv[n]]) if n in e['complement'] else dd[inv[n]] for n in names]
    # new axis j carries the old population o with perm[o] = j; recorded as the list `axes` (old population of each new axis)
    axes = [0] * P
    for o in range(1, P + 1):
        axes[e['perm'][o - 1] - 1] = o
    return {'kind': 'swap', 'model': e['model'], 'params': p, 'swapped': p2, 'perm': axes, 'ns': ns, 'pts': 14 if P == 2 else 10}


def rand_ns(rng, P, even=False):
    """Distinct sample sizes, so that a wrong population order is visible in the shape."""
    return rng.sample([2, 4, 6] if even else [2, 3, 4, 5], P)


PTS = {1: 16, 2: 12, 3: 9}            # nesting pairs (equality of two runs of the same program: any grid will do)
PTS_FINE = {1: 40, 2: 30, 3: 20}       # the evaluation on which the output clauses (non-negativity) are judged
PTS_PROBE = {1: 10, 2: 8, 3: 7}        # parameter-influence probes (only the event programs are compared)


def gen_groups(ctx, rng):
    ms = models()
    table = load_table()
    groups = []
    # (1) every function exposing __param_names__: one full evaluation, every parameter perturbed in turn, arity
    draws = 1 if ctx.quick else 4
    for q, f in ms.items():
        names = list(f.__param_names__)
        P = ndim_of(q, f)
        for d in range(draws):
            wide = d >= 2
            g = {'kind': 'model', 'model': q, 'params': draw_params(rng, names, wide), 'ns': rand_ns(rng, P, even='inbreeding' in q), 'pts': PTS_FINE[P] + (0 if d == 0 else rng.choice([0, 3, 6])),
                 'perturb': list(range(len(names))) if d == 0 else []}
            groups.append(g)
    # (2) nestings
    nest = table['nestings']
    chosen, reps = nest, (1 if ctx.quick else 4)
    seen_a, seen_b = set(), set()
    for e in chosen:
        P = ndim_of(e['A'], ms[e['A']])
        for d in range(reps):
            pa, pb = nest_params(e, rng, wide=(d >= 2))
            groups.append({'kind': 'nest', 'A': e['A'], 'B': e['B'], 'nesting': e['kind'], 'point': e['point'], 'pa': pa, 'pb': pb, 'ns': rand_ns(rng, P), 'pts': PTS[P]})
        # the same relation with every free size, rate and fraction at an end point of its range (the reference for the
        # boundary values is the nested model): in quick the first nesting of every model as A and as B, every nesting in thorough
        # (as B a model has all its parameters free, so each of them sits at an end point there)
        if not ctx.quick or e['A'] not in seen_a or e['B'] not in seen_b:
            seen_a.add(e['A'])
            seen_b.add(e['B'])
            pa, pb = nest_params(e, rng, wide='corner')
            groups.append({'kind': 'nest', 'A': e['A'], 'B': e['B'], 'nesting': e['kind'], 'point': e['point'], 'pa': pa, 'pb': pb, 'ns': rand_ns(rng, P), 'pts': PTS[P],
                           'corner': True})
    # (3) label swaps at two time-step scales
    swaps = table['swaps']
    if ctx.quick:
        # every symmetric model once (its first relabelling); thorough runs every relabelling of the table
        seen_m, chosen, reps = set(), [], 1
        for e in swaps:
            if e['model'] not in seen_m:
                seen_m.add(e['model'])
                chosen.append(e)
    else:
        chosen, reps = swaps, 3
    for e in chosen:
        f = ms[e['model']]
        names = list(f.__param_names__)
        P = len(e['perm'])
        for d in range(reps):
            groups.append(swap_group(e, names, draw_swap_params(rng, names), rand_ns(rng, P)))
    # (4) the end points and special values of the documented bounds, and other ways of handing over the same values
    groups += edge_groups(ctx, rng)
    # (5) the non-generic points inside the bounds: exactly equal sizes / durations / rates, one rate exactly 0 (own generator)
    groups += tie_groups(ctx, random.Random(ctx.seed + 1500))
    # (6) the way scripts call a library model: wrapped for extrapolation, here with ONE grid size (own generator)
    groups += wrap_groups(ctx, random.Random(ctx.seed + 1600))
    return groups


WRAP_VIAS = ('ex-list', 'ex-scalar', 'log-list', 'log-scalar')


def wrap_groups(ctx, rng):
    """Well-formedness of a model evaluated through Numerics.make_extrap_func and make_extrap_log_func with a single grid size,
    given as the one-entry list [pts] and as the scalar pts: the full clause set of an evaluation (finite, non-negative on the fine
    grid, shape, tagged for extrapolation, unfolded) applies to what the wrapper returns.  A representative subset in quick (per
    module and number of populations: six models with 1 or 2 populations, four with 3), every model in thorough; parameters in the
    regime of the swap calibration (short epochs) so that the fine-grid evaluations are fast."""
    ms = models()
    groups, cnt = [], {}
    for q, f in ms.items():
        if is_mscore(f):
            continue
        P = ndim_of(q, f)
        if P > 3:
            continue
        key = (q.split('.')[0], P)
        cnt[key] = cnt.get(key, 0) + 1
        if ctx.quick and cnt[key] > (6 if P <= 2 else 4):
            continue
        names = list(f.__param_names__)
        p = draw_swap_params(rng, names)
        evals = [{'slot': via, 'params': p, 'cont': 'tuple', 'num': 'py', 'via': via, 'fine': True, 'pts': PTS_FINE[P]} for via in WRAP_VIAS]
        groups.append({'kind': 'edge', 'model': q, 'ns': rand_ns(rng, P, even='inbreeding' in q), 'pts': PTS_FINE[P], 'evals': evals, 'alike': [], 'wrap': True})
    return groups


# the documented bounds: nu in [1e-2, 100], T in [0, 3], m in [0, 10], fractions in (0, 1)
NU_LO, NU_HI, T_HI, M_HI, FR_LO, FR_HI = 1e-2, 100.0, 3.0, 10.0, 1e-3, 0.999


def _with(names, base, **by_class):
    """base with every parameter of a class replaced: value, or a function k -> value of the k-th parameter of that class."""
    out, cnt = [], {}
    for n, v in zip(names, base):
        c = pclass(n)
        c = 'frac' if c in ('s', 'f', 'F') else c
        k = cnt.get(c, 0)
        cnt[c] = k + 1
        if c in by_class:
            r = by_class[c]
            v = r(k) if callable(r) else r
        out.append(v)
    return out


def edge_groups(ctx, rng):
    """Deterministic boundary records for every model:
      v0 / va / vi   integer-valued nu, m, gamma as a tuple of Python floats / a numpy array of numpy.float64 / a list with Python
                     ints (ns as tuple / array / list): same program, same spectrum
      t0i / t0n      every duration exactly 0 as Python int (list) / numpy.float64 (array); 0.0 as Python float is a nesting point
      lo / hi        nu = 1e-2, m = 0 (int)  /  nu = 100, m = 10
      frlo / frhi    fractions (s, f, F) = 1e-3 / 0.999
      eq             all sizes 1, all migration rates equal, all selection coefficients equal
      t3             every duration at the upper bound 3 (two models per family in quick, every model in thorough)
    thorough adds each end point on its own."""
    ms = models()
    groups = []
    fam_t3, fam3 = {}, {}
    for q, f in ms.items():
        if is_mscore(f):
            continue
        names = list(f.__param_names__)
        P = ndim_of(q, f)
        base = draw_swap_params(rng, names)
        cls = {('frac' if pclass(n) in ('s', 'f', 'F') else pclass(n)) for n in names}
        # integer-valued sizes, rates and selection coefficients (the generic non-integer draws are those of the model groups)
        v0 = _with(names, base, nu=lambda k: float(k + 2), m=lambda k: float(k + 1), gamma=lambda k: float(-1 - k))
        vi = [int(v) if (pclass(n) in ('nu', 'm', 'gamma')) else v for n, v in zip(names, v0)]
        evals = [{'slot': 'v0', 'params': v0, 'cont': 'tuple', 'num': 'py'}, {'slot': 'va', 'params': v0, 'cont': 'array', 'num': 'np'},
                 {'slot': 'vi', 'params': vi, 'cont': 'list', 'num': 'py'}]
        alike = [['v0', 'va'], ['v0', 'vi']]
        if 'T' in cls:
            # (T = 0.0 as a Python float is the zero-epoch point of the nesting pairs)
            evals += [{'slot': 't0i', 'params': _with(names, base, T=0), 'cont': 'list', 'num': 'py'},
                      {'slot': 't0n', 'params': _with(names, base, T=0.0), 'cont': 'array', 'num': 'np'}]
            alike += [['t0i', 't0n']]
        fam = q.split('.')[0]
        # the output clauses (non-negativity) are judged on the fine grid: for every 1- and 2-population model, and in quick for two
        # 3-population models per family (a fine 3-D evaluation costs up to a second, at T = 3 several seconds)
        fam3[fam] = fam3.get(fam, 0) + (1 if P == 3 else 0)
        fine_ok = (not ctx.quick) or P <= 2 or fam3[fam] <= 2

        def ev(slot, params, fine):
            d = {'slot': slot, 'params': params, 'cont': 'tuple', 'num': 'py'}
            if fine:
                d.update(fine=True, pts=PTS_FINE[P])
            return d
        evals.append(ev('lo', _with(names, base, nu=NU_LO, m=0), fine_ok))
        evals.append(ev('hi', _with(names, base, nu=NU_HI, m=M_HI), fine_ok))
        if 'frac' in cls:
            # on their own: a fraction also scales sizes (s * nuPre), and the corner nu = 1e-2 with s = 1e-3 costs 1e6 time steps
            evals.append(ev('frlo', _with(names, base, frac=FR_LO), not ctx.quick))
            evals.append(ev('frhi', _with(names, base, frac=FR_HI), not ctx.quick))
        # all sizes 1, equal rates, equal selection - and equal sample sizes (every other evaluation has distinct ones)
        evals.append(dict(ev('eq', [], False), ns=[4] * P, params=_with(names, base, nu=1.0, m=base[[pclass(n) for n in names].index('m')] if 'm' in cls else 0.0,
                                    gamma=base[[pclass(n) for n in names].index('gamma')] if 'gamma' in cls else 0.0)))
        if 'T' in cls and (not ctx.quick or fam_t3.get(fam, 0) < 2):
            fam_t3[fam] = fam_t3.get(fam, 0) + 1
            evals.append(ev('t3', _with(names, base, T=T_HI, m=lambda k: 0.4 + 0.1 * k), (not ctx.quick) or P <= 2))
        if not ctx.quick:
            for slot, kw in (('nulo', {'nu': NU_LO}), ('nuhi', {'nu': NU_HI}), ('m0', {'m': 0.0}), ('mhi', {'m': M_HI}),
                             ('t3i', {'T': 3, 'nu': 1, 'm': lambda k: 0.4 + 0.1 * k})):
                if set(kw) & cls:
                    evals.append(ev(slot, _with(names, base, **kw), False))
        groups.append({'kind': 'edge', 'model': q, 'ns': rand_ns(rng, P, even='inbreeding' in q), 'pts': PTS[P], 'evals': evals, 'alike': alike})
    return groups


# --------------------------------------------------------------------------
# tied parameter vectors: several parameters of one class EXACTLY equal (the same float), one rate exactly 0
# --------------------------------------------------------------------------
TIE_VARIANTS = ('sizes', 'rates', 'm0', 'all')


def tie_params(rng, names, variant):
    """(vector, number of parameters forced) in the regime of draw_swap_params with
      sizes   every size the same number and every duration the same number; rates, selection, fractions distinct
      rates   every migration rate the same number and every selection coefficient the same number; sizes, durations distinct
      m0      one migration rate (drawn) exactly 0.0, the others distinct and positive; every size the same number
      all     sizes, durations, rates, selection coefficients each tied, fractions exactly 1/2
      zero:i / zero:i+j   the i-th (and j-th) migration rate of the model exactly 0.0, everything else a generic draw (the end point
              m = 0 of the bounds for some directions only)
    A class with a single parameter cannot be tied; the count tells whether the vector differs in kind from a generic draw."""
    base = draw_swap_params(rng, names)
    cls = ['frac' if pclass(n) in ('s', 'f', 'F') else pclass(n) for n in names]
    count = {c: cls.count(c) for c in set(cls)}
    first = {c: base[cls.index(c)] for c in count}
    kw, forced = {}, 0

    def tie(c):
        nonlocal forced
        if count.get(c, 0) >= 2:
            kw[c] = first[c]
            forced += count[c]
    if variant in ('sizes', 'all'):
        tie('nu')
        tie('T')
    if variant in ('rates', 'all'):
        tie('m')
        tie('gamma')
    if variant == 'all' and 'frac' in count:
        kw['frac'] = 0.5
        forced += count['frac']
    if variant == 'm0':
        tie('nu')
        if 'm' in count:
            k0 = rng.randrange(count['m'])
            mvals = [v for v, c in zip(base, cls) if c == 'm']
            kw['m'] = lambda k: 0.0 if k == k0 else mvals[k]
            forced += 1
        else:
            forced = 0
    if variant.startswith('zero:'):
        zs = {int(k) for k in variant[5:].split('+')}
        if zs and max(zs) < count.get('m', 0):
            mvals = [v for v, c in zip(base, cls) if c == 'm']
            kw['m'] = lambda k: 0.0 if k in zs else mvals[k]
            forced = len(zs)
    return _with(names, base, **kw), forced


# the zero-rate groups of the 3-population models run with halved durations on a coarser grid (a 3-population swap group in the
# regime of draw_swap_params costs 0.2 - 1.8 s); calibrated separately, see tie_groups
PTS_SHORT = {3: 8}


def shorten(names, p):
    return [v * 0.5 if pclass(n) == 'T' else v for n, v in zip(names, p)]


def zero_sets(nm):
    """The variants 'zero:...' of a model with nm migration-rate parameters: each single rate, then each pair."""
    return ['zero:%d' % i for i in range(nm)] + ['zero:%d+%d' % (i, j) for i in range(nm) for j in range(i + 1, nm)]


def tie_groups(ctx, rng):
    """Deterministic block (own generator): every relation of the specification evaluated at tied parameter vectors.
      swap   every model of the swap table (quick: its first relabelling; thorough: every relabelling) at the 'sizes' vector and, in quick for the
             two-population models, at one further variant in rotation (thorough: every variant) - with equal sizes and unequal rates
             the swapped call differs from the original in the rates only
      nest   the nestings with the free parameters tied (quick: the first nesting of every model as A, variants in rotation; thorough: all)
      model  the full clause set at the 'sizes' vector for every model that is not closed under a relabelling
      zero   (own generator seed + 1501) swap groups with named migration rates exactly 0.0 at an otherwise generic vector, cycling over WHICH
             rate: quick - every 3-population model of the swap table one single rate and one pair (position advancing from model to model),
             Demographics3D.out_of_africa (the only model on the variable-parameter 3-population kernels) every single rate and every pair;
             thorough - every relabelling of every 3-population model with every single rate and every pair.  They run with halved
             durations at pts 8 (shorten, PTS_SHORT).  Calibration 2026-10-04, clean tree: 1430 such groups (every 3-population relabelling x
             zero set x 13 draws) contraction <= 0.126; out_of_africa in the regime of draw_swap_params (generic, tie variants, zero sets) <= 0.083."""
    ms = models()
    table = load_table()
    groups = []
    rot = 0
    seen = set()
    for e in table['swaps']:
        if ctx.quick and e['model'] in seen:
            continue
        seen.add(e['model'])
        names = list(ms[e['model']].__param_names__)
        P = len(e['perm'])
        # the further variants that tie something and differ from 'sizes' for this model ('all' = 'sizes' when there is nothing else to tie)
        ref = tie_params(random.Random(0), names, 'sizes')[0]
        others = [v for v in TIE_VARIANTS[1:] if tie_params(random.Random(0), names, v)[1] > 0 and tie_params(random.Random(0), names, v)[0] != ref]
        if ctx.quick:
            # (a 3-population swap group costs 0.2 - 1.8 s: in quick only the 'sizes' vector for those, in the short regime; their rates: zero block below)
            variants = ['sizes'] + ([others[rot % len(others)]] if others and P == 2 else [])
            rot += 1
        else:
            variants = ['sizes'] + others
        for v in variants:
            p, forced = tie_params(rng, names, v)
            if forced == 0:
                continue
            g = dict(swap_group(e, names, p, rand_ns(rng, P)), tie=v)
            if ctx.quick and P == 3:
                # short regime (calibrated 2026-10-04 on the clean tree: 468 groups = every 3-population relabelling x generic / tie variants x 3 draws,
                # contraction <= 0.092 above the floor); thorough keeps the regime of draw_swap_params
                g.update(params=shorten(names, g['params']), swapped=shorten(names, g['swapped']), pts=PTS_SHORT[P])
            groups.append(g)
    seen_a = set()
    for k, e in enumerate(table['nestings']):
        if ctx.quick and e['A'] in seen_a:
            continue
        seen_a.add(e['A'])
        P = ndim_of(e['A'], ms[e['A']])
        na = list(ms[e['A']].__param_names__)
        vs = [v if tie_params(random.Random(0), na, v)[1] else 'all' for v in ([TIE_VARIANTS[len(seen_a) % len(TIE_VARIANTS)]] if ctx.quick else TIE_VARIANTS)]
        for v in sorted(set(vs), key=vs.index):
            pa, pb = nest_params(e, rng, wide='tie:' + v)
            groups.append({'kind': 'nest', 'A': e['A'], 'B': e['B'], 'nesting': e['kind'], 'point': e['point'], 'pa': pa, 'pb': pb, 'ns': rand_ns(rng, P), 'pts': PTS[P],
                           'tie': v})
    zrng = random.Random(ctx.seed + 1501)
    seen_z, pos = set(), 0
    for e in table['swaps']:
        P = len(e['perm'])
        # (3-population models only: with EVERY rate of a 2-population model zero the asymmetry is ~1e-7 of the largest entry and contracts
        # slowly - 0.246 seen on the clean tree for anc_sym_mig_size - so that point is left to the 'm0' variant and the zero-migration nestings)
        if P != 3 or (ctx.quick and e['model'] in seen_z):
            continue
        seen_z.add(e['model'])
        names = list(ms[e['model']].__param_names__)
        zs = zero_sets(sum(1 for n in names if pclass(n) == 'm'))
        if not zs:
            continue
        if ctx.quick and e['model'] != 'Demographics3D.out_of_africa':
            singles, pairs = [z for z in zs if '+' not in z], [z for z in zs if '+' in z]
            zs = [singles[pos % len(singles)]] + ([pairs[pos % len(pairs)]] if pairs else [])
            pos += 1
        for v in zs:
            p = tie_params(zrng, names, v)[0]
            groups.append(dict(swap_group(e, names, shorten(names, p), rand_ns(zrng, P)), pts=PTS_SHORT[P], tie=v))
    for q, f in ms.items():
        if is_mscore(f) or q in seen:
            continue
        names = list(f.__param_names__)
        P = ndim_of(q, f)
        for v in ('sizes', 'all'):
            p, forced = tie_params(rng, names, v)
            if forced:
                break
        else:
            continue
        fine = (not ctx.quick) or P <= 2
        groups.append({'kind': 'model', 'model': q, 'params': p, 'ns': rand_ns(rng, P, even='inbreeding' in q), 'pts': PTS_FINE[P] if fine else PTS[P], 'fine': fine,
                       'perturb': [], 'tie': v})
    return groups


# --------------------------------------------------------------------------
# binding demonstration: corrupted groups that a sound trace spec must reject
# --------------------------------------------------------------------------
def _retag(ev, tag):
    ev = copy.deepcopy(ev)
    for e in ev:
        e['tid'] = tag + e['tid']
        e['id'] = tag + e['id']
    return ev


def _scale(v, num, den):
    from fractions import Fraction
    return rat(Fraction(v) * Fraction(num, den))


def mutations(groups, traces, rejected=()):
    """[(events, clause that must be reported)]; groups that the trace spec already rejected are not used as a source
    (a corruption of a malformed observation may be reported under another clause)."""
    out = []
    seen = set()
    keep = [(g, tr) for g, tr in zip(groups, traces) if tr and tr[0].get('tid') not in rejected]
    groups, traces = [g for g, _ in keep], [tr for _, tr in keep]

    def once(name):
        if name in seen:
            return False
        seen.add(name)
        return True
    for g, tr in zip(groups, traces):
        if g['kind'] == 'nest':
            iB = [i for i, e in enumerate(tr) if e['op'] == 'begin' and e['slot'] == 'B'][0]
            ints = [i for i, e in enumerate(tr) if i > iB and e['op'] == 'call' and e['fn'] in INTEGRATION_FUNCS and e['args'].get('T', {}).get('v') != ['0']]
            if ints and once('nest-arg'):
                m = _retag(tr, 'MUTa-')
                a = m[ints[-1]]['args']
                key = [k for k in sorted(a) if k.startswith('nu') and a[k]['k'] == 'c']
                if key:
                    a[key[0]]['v'] = [_scale(a[key[0]]['v'][0], 3, 2)]
                    out.append((m, 'NestedProgramsCoincide'))
            if once('nest-spectrum'):
                m = _retag(tr, 'MUTb-')
                d = m[-2]['out']['d']
                j = len(d) // 2
                d[j] = _scale(d[j], 1000001, 1000000)
                out.append((m, 'NestedSpectraCoincide'))
            if ints and once('nest-extra-epoch'):
                m = _retag(tr, 'MUTc-')
                dup = copy.deepcopy(m[ints[-1]])
                dup['id'] += 'x'
                m.insert(ints[-1], dup)
                out.append((m, 'NestedProgramsCoincide'))
        elif g['kind'] == 'model' and tr[0]['op'] == 'begin':
            iend = [i for i, e in enumerate(tr) if e['op'] == 'end'][0]
            if 'sh' not in tr[iend]['out']:
                continue
            if once('no-sample'):
                m = _retag(tr, 'MUTd-')
                del m[iend - 1]
                out.append((m, 'EndsWithSample'))
            if once('no-tag'):
                m = _retag(tr, 'MUTe-')
                m[iend]['out']['extrap_x'] = 'none'
                out.append((m, 'TaggedForExtrapolation'))
            if once('neg'):
                m = _retag(tr, 'MUTf-')
                d = m[iend]['out']['d']
                d[len(d) // 2] = rat(-1e-3)
                out.append((m, 'NonNegative'))
            if once('nan'):
                m = _retag(tr, 'MUTg-')
                m[iend]['out']['d'][1] = 'nan'
                out.append((m, 'Finite'))
            if len(g['ns']) >= 2 and once('shape'):
                m = _retag(tr, 'MUTh-')
                sh = m[iend]['out']['sh']
                sh[0], sh[1] = sh[1], sh[0]
                out.append((m, 'SpectrumShape'))
            ints = [i for i, e in enumerate(tr) if i < iend and e['op'] == 'call' and e['fn'] in INTEGRATION_FUNCS]
            names = tr[0]['names']
            if ints and 'm12' in names and 'm21' in names and once('binding'):
                cand = [i for i in ints if tr[i]['args'].get('m12', {}).get('k') == 'c' and tr[i]['args'].get('m21', {}).get('k') == 'c'
                        and tr[i]['args']['m12']['v'] != tr[i]['args']['m21']['v'] and '0' not in (tr[i]['args']['m12']['v'][0], tr[i]['args']['m21']['v'][0])]
                if cand:
                    m = _retag(tr, 'MUTi-')
                    a = m[cand[0]]['args']
                    a['m12'], a['m21'] = a['m21'], a['m12']
                    out.append((m, 'NamedParameterReachesSameNamedArgument'))
                else:
                    seen.discard('binding')
            if ints and once('dimension'):
                m = _retag(tr, 'MUTj-')
                m[ints[0]]['phi_in'] = m[ints[0]]['phi_in'] + [m[0]['pts']]
                out.append((m, 'DensityDimension'))
            if g.get('perturb') and once('ignored'):
                # the perturbed evaluation performs the base program: the parameter is ignored
                m = _retag(tr, 'MUTk-')
                b0 = [i for i, e in enumerate(m) if e['op'] == 'begin' and e['slot'] == 'p'][0]
                b1 = [i for i, e in enumerate(m) if e['op'] == 'end' and e['slot'] == 'p'][0]
                p0 = [i for i, e in enumerate(m) if e['op'] == 'begin' and e['slot'] == 'p0'][0]
                p1 = [i for i, e in enumerate(m) if e['op'] == 'end' and e['slot'] == 'p0'][0]
                body = copy.deepcopy(m[b0 + 1:b1])
                for e in body:
                    e['id'] += 'y'
                m[p0 + 1:p1] = body
                out.append((m, 'ParameterInfluencesProgram'))
            if len(names) >= 1 and once('arity'):
                m = _retag(tr, 'MUTl-')
                m[-1]['short_raised'] = False
                out.append((m, 'RejectsTooFewParameters'))
        elif g['kind'] == 'edge':
            span = {}
            for i, e in enumerate(tr):
                if e['op'] in ('begin', 'end'):
                    span.setdefault(e['slot'], []).append(i)
            if 'va' in span and 'd' in tr[span['va'][1]]['out'] and once('alike-spectrum'):
                m = _retag(tr, 'MUTp-')
                d = m[span['va'][1]]['out']['d']
                d[len(d) // 2] = _scale(d[len(d) // 2], 1000001, 1000000)
                out.append((m, 'EquivalentArgumentsSameSpectrum'))
            if 'vi' in span:
                ints = [i for i in range(span['vi'][0], span['vi'][1]) if tr[i]['op'] == 'call' and tr[i]['fn'] in INTEGRATION_FUNCS
                        and any(k.startswith('nu') and v['k'] == 'c' for k, v in tr[i]['args'].items())]
                if ints and once('alike-program'):
                    m = _retag(tr, 'MUTq-')
                    a = m[ints[0]]['args']
                    key = [k for k in sorted(a) if k.startswith('nu') and a[k]['k'] == 'c'][0]
                    a[key]['v'] = [_scale(a[key]['v'][0], 3, 2)]
                    out.append((m, 'EquivalentArgumentsSameProgram'))
            if 't0i' in span and 'sh' in tr[span['t0i'][1]]['out'] and once('t0-neg'):
                # an entry of the T = 0 (int) spectrum made non-finite
                m = _retag(tr, 'MUTr-')
                m[span['t0i'][1]]['out']['d'][0] = 'inf'
                out.append((m, 'Finite'))
        elif g['kind'] == 'swap':
            if once('swap'):
                m = _retag(tr, 'MUTm-')
                ends = {e['slot']: e for e in m if e['op'] == 'end'}
                if 'd' in ends['b2']['out']:
                    # the fine-step swapped spectrum is off by half its size: the asymmetry does not shrink
                    ends['b2']['out']['d'] = [_scale(v, 3, 2) for v in ends['b2']['out']['d']]
                    out.append((m, 'SwapEquivarianceRefines'))
                else:
                    seen.discard('swap')
            names = [e for e in tr if e['op'] == 'begin'][0]['names']
            if any(n.startswith('m') for n in names) and any(n.startswith('nu1') for n in names) and once('swap-norefine'):
                # the fine-step pair is a copy of the coarse-step pair: the asymmetry is that of the coarse step
                m = _retag(tr, 'MUTo-')
                ends = {e['slot']: e for e in m if e['op'] == 'end'}
                if all('d' in ends[k]['out'] for k in ('a1', 'b1', 'a2', 'b2')):
                    ends['b2']['out'] = copy.deepcopy(ends['b1']['out'])
                    ends['a2']['out'] = copy.deepcopy(ends['a1']['out'])
                    out.append((m, 'SwapEquivarianceRefines'))
            if once('swap-ns'):
                m = _retag(tr, 'MUTn-')
                m[-1]['perm'] = list(range(1, len(m[-1]['perm']) + 1))
                if g['ns'] != [g['ns'][j - 1] for j in g['perm']]:
                    out.append((m, 'SwappedSampleSizes'))
    return out


# --------------------------------------------------------------------------
# run
# --------------------------------------------------------------------------
def describe(g):
    if g.get('tie'):
        return 'tied parameters (%s): %s' % (g['tie'], describe({k: v for k, v in g.items() if k != 'tie'}))
    if g['kind'] == 'model':
        return 'model %s params=%s ns=%s pts=%d' % (g['model'], g['params'], g['ns'], g['pts'])
    if g['kind'] == 'nest':
        return 'nesting %s at %s (params %s) vs %s (params %s), ns=%s pts=%d' % (g['A'], g.get('point'), g['pa'], g['B'], g['pb'], g['ns'], g['pts'])
    if g['kind'] == 'edge':
        return 'boundary / argument-type records of %s ns=%s pts=%d: %s' % (g['model'], g['ns'], g['pts'], '; '.join('%s=%s as %s/%s%s' % (v['slot'], v['params'], v['cont'], v['num'], ('/' + v['via']) if v.get('via') else '') for v in g['evals']))
    return 'label swap of %s params=%s vs %s, axes %s, ns=%s' % (g['model'], g['params'], g['swapped'], g['perm'], g['ns'])


def validate(groups, parallel=8):
    traces = [realize(g, 'g%d' % k) for k, g in enumerate(groups)]
    allrecs = [e for tr in traces for e in tr]
    verdicts, st = common.validate_trace(TRACE_SPEC, allrecs, parallel=parallel, groups=traces)
    return traces, verdicts, st


def violations_of(groups, verdicts):
    viol = []
    for tid, clauses in sorted(verdicts.items()):
        g = groups[int(tid[1:])]
        for c in clauses:
            viol.append({'key': '%s/%s' % (site_of(g), c), 'what': '%s: clause %s violated' % (describe(g), c),
                         'payload': {'group': g, 'clause': c, 'trace_spec': TRACE_SPEC}})
    return viol


def run(ctx):
    rng = random.Random(ctx.seed + 15)
    mcs = [('DemoMachineMC', 'DemoMachineMC_%s.cfg' % ctx.tier)]
    if ctx.replay:
        ctx.no_mc = True
        g = ctx.replay_payload['payload']['group']
        traces, verdicts, st = validate([g], parallel=1)
        return {'coverage': {'states': st['states'], 'transitions': st['transitions'], 'traces_validated_against_impl': 1, 'samples': [g]},
                'assumptions': [], 'violations': violations_of([g], verdicts)}
    # a request for GPU execution that cannot be honoured (no dadi.cuda on this machine) is documented to return False
    # and change nothing: every model below must still return its spectrum afterwards
    try:
        import dadi as _dadi
        ctx.cuda_request = repr(_dadi.cuda_enabled(True))
    except Exception as e:
        ctx.cuda_request = 'raised ' + type(e).__name__
    res = common.pipeline(ctx, mcs, TRACE_SPEC, [], rule='', assumptions=[
        'dadi.cuda_enabled(True) is called once before the models are evaluated (returned %s on this machine); ' % getattr(ctx, 'cuda_request', '?') +
        'the event proxies sit on dadi.PhiManip.*, dadi.Integration.one_pop..five_pops and Spectrum.from_phi[_inbreeding] (module / class attributes looked up at call time); '
        'nested calls made by a primitive itself are not logged',
        'a time-function argument is known to the specification by its values at the fractions (0, 1/4, 1/2, 1) of the integration interval',
        'Norm(A) = Norm(B) means the same sequence of numerically effective primitive calls with the same arguments; the recorded spectra are then compared at 1e-10 of the largest entry',
        'swap equivariance is judged as a refinement: the asymmetry at timescale_factor 1.5625e-5 must be <= 1/4 of that at 2.5e-4 (+1e-10 of the largest entry); '
        'calibrated: true symmetries <= 0.13, relabellings that are not symmetries >= 0.35 (typically 1.0)',
        'parameters are sampled inside the documented bounds (seeded); each sampled case is decided exactly by TLC',
        'the non-generic points of the bounds (several parameters of one class exactly equal, one rate exactly 0) are visited by a deterministic block in the regime of the '
        'swap calibration (nu in [0.5,3], T in [0.02,0.06], m in [0.3,1.5]; the 3-population groups of the quick tier with T halved at pts 8); all sizes tied means ALL of '
        'them, not every pairwise pattern; exactly-zero rates: every single rate and every pair for out_of_africa, one single and one pair (position cycling) for the '
        'other 3-population models in quick, all of them in thorough'])
    groups = gen_groups(ctx, rng)
    traces, verdicts, st = validate(groups)
    # binding demonstration
    muts = mutations(groups, traces, rejected=set(verdicts))
    mrecs = [e for m, _ in muts for e in m]
    mv, _ = common.validate_trace(TRACE_SPEC, mrecs, parallel=4, groups=[m for m, _ in muts])
    missed = []
    for m, clause in muts:
        got = mv.get(m[0]['tid'], [])
        if not any(c.startswith(clause) for c in got):
            missed.append((m[0]['tid'], clause, got))
    if (missed or len(muts) < 10) and not verdicts:
        raise common.MachineryError('binding demonstration failed: corrupted traces not rejected with the expected clause: %s (mutations built: %d)' % (missed[:5], len(muts)))
    # (same rule as common.pipeline: when the tree under test is already being rejected, a mutator may be vacuous on its malformed
    # observations - e.g. state kept between calls makes the copy of a good group differ from it; the violations are reported, the gap noted)
    res['violations'] += violations_of(groups, verdicts)
    cov = res['coverage']
    kinds = {}
    for g in groups:
        kinds[g['kind']] = kinds.get(g['kind'], 0) + 1
    nev = sum(len(t) for t in traces)
    nevals = sum(1 for t in traces for e in t if e['op'] == 'begin')
    cov['states'] += st['states']
    cov['transitions'] += st['transitions']
    cov['traces_validated_against_impl'] = nevals
    cov['evaluations'] = nevals
    cov['distinct_nontrivial'] = len({(g['kind'], site_of(g), json.dumps(g.get('point'), sort_keys=True), tuple(g.get('perm', ())), g.get('tie')) for g in groups})
    cov['rule'] = ('one trace = one model evaluation under call proxies (begin, one event per primitive call, end); groups: every function exposing __param_names__ '
                   '(full clause set, every parameter perturbed in turn, arity probes), nesting pairs of the curated table (five documented kinds), label swaps at two '
                   'time-step scales, boundary groups (per model: integer-valued values as tuple of floats / numpy array of float64 / list with ints, all durations 0 as int and '
                   'as numpy.float64, nu = 1e-2 & m = 0, nu = 100 & m = 10 judged on the fine grid, fractions 1e-3 / 0.999, all-equal values with equal sample sizes, '
                   'durations 3), nesting pairs with every free size / rate / fraction at an end point of its range, tied parameter vectors (exactly equal sizes / '
                   'durations / rates / selection, one rate exactly 0: swap refinement for every model of the swap table, nestings, full clause set for the other models; '
                   'named rates exactly 0 - each single rate and each pair - for the 3-population models); '
                   'non-trivial = distinct (group kind, model or pair, nesting point, relabelling)')
    cov['trace_validation'] = {'spec': TRACE_SPEC, 'groups': len(groups), 'groups_by_kind': kinds, 'events': nev, 'model_evaluations': nevals,
                               'tlc_states': st['states'], 'wall_s': round(st['wall'], 1), 'groups_rejected': len(verdicts)}
    cov['models'] = {'functions_with_param_names': len(models()), 'mscore_builders_arity_only': sum(1 for f in models().values() if is_mscore(f)),
                     'nestings_in_table': len(load_table()['nestings']), 'nestings_run': kinds.get('nest', 0),
                     'swaps_in_table': len(load_table()['swaps']), 'swaps_run': kinds.get('swap', 0)}
    cov['boundary_records'] = {'edge_groups': kinds.get('edge', 0), 'edge_evaluations': sum(len(g['evals']) for g in groups if g['kind'] == 'edge'),
                               'corner_nestings': sum(1 for g in groups if g.get('corner')),
                               'bounds': {'nu': [NU_LO, NU_HI], 'T': [0, T_HI], 'm': [0, M_HI], 'fractions': [FR_LO, FR_HI]}}
    ties = [g for g in groups if g.get('tie')]
    cov['tied_parameter_vectors'] = {'groups': len(ties), 'by_kind_and_variant': {'%s/%s' % (k, v): sum(1 for g in ties if (g['kind'], g['tie'].split(':')[0]) == (k, v))
                                                                                  for k, v in sorted({(g['kind'], g['tie'].split(':')[0]) for g in ties})},
                                     'zero_rate_sets_out_of_africa': sorted(g['tie'] for g in ties if g['tie'].startswith('zero:') and g['model'].endswith('out_of_africa')),
                                     'generator': 'random.Random(seed + 1500)', 'site_suffix': '@ties',
                                     'calibration': '2026-10-04, clean tree, 1004 tied swap groups (79 relabellings x 4 variants x 4 draws): contraction <= 0.133 where the '
                                                    'asymmetry exceeds the floor; 236 groups at round-off (<= 2.3e-14 of the largest entry); short regime of the 3-population groups (durations halved, pts 8): '
                                                    '468 generic / tied groups <= 0.092, 1430 zero-rate groups <= 0.126; out_of_africa (variable-parameter kernels) <= 0.083'}
    cov['binding_demo'] = {'mutated_traces': len(muts), 'rejected_with_expected_clause': len(muts) - len(missed), 'clauses': sorted({c for _, c in muts})}
    if missed:
        cov['binding_demo']['accepted_mutants_on_a_violating_tree'] = [[t, c, sorted(got)] for t, c, got in missed[:10]]
    cov['samples'] = [common._shorten(e) for e in traces[len(traces) // 2][:4]]
    return res
