"""Vacuity guard for the exhaustive TLC models.

    /venv/bin/python -m harness.vacuity [--tier quick|thorough|all] [--report] [--only SUBSTR] [--jobs N] [--workers W]

Re-runs every exhaustive model-checking configuration of the selected tier with `-coverage 1` (the command line of
harness.common.run_mc/tlc, in a scratch copy of spec/, see thin_rat) and reads TLC's coverage statistics.  Exit 1 if

  * an action (a disjunct of Next / an Init predicate, as TLC splits them) was never taken (`0:0`, `n:0`) or never
    found a NEW state (`0:m`)                                                                        [kind "action"]
  * a sub-expression of an action was never evaluated: a disjunct / IF- or CASE-branch of a monolithic Next that is
    dead in this configuration                                                                        [kind "branch"]
  * a sub-expression of an INVARIANT is reported with count 0, or a reachability probe (PROBED) of a law's guard is
    never satisfied                                                                                   [kind "law"]
    LIMITATION (measured, TLC 2026.09): the textual statistics print a zero count only for "primed locations"
    (x' = e, x' in S, UNCHANGED) -- a never-evaluated consequent / IF-branch of an INVARIANT, or a never-true guard
    conjunct of an action, is silently left out and its parent is collapsed (OpApplNodeWrapper.print).  So this guard
    is reliable for actions and for the assignment part of every disjunct of Next, NOT for vacuous law guards: those
    are only covered where PROBED lists explicit guard predicates.  (Making OpApplNodeWrapper.isPrimed() return true
    -- a 3-byte patch of the class, tried in a scratch directory only -- makes TLC print all zero counts.)
  * the model finishes with fewer than MIN_STATES distinct states                                     [kind "tiny"]
  * a configuration that must pass fails / a refutation configuration (defective design) passes

unless the finding is on the allow-list harness/vacuity_allow.json (every entry carries a reason).  Exit 0 otherwise,
2 on machinery failure.  No verdict about dadi is computed here: this only guards the models against checking nothing.

Allow-list entry: {"cfg": fnmatch pattern, "kind": "action"|"branch"|"law"|"tiny", "where": name of the action /
invariant, "expr": prefix of the (whitespace-normalised) source text of the dead expression (for kind "action": of the
unnamed disjunct of Next, "" for a named action), "reason": "..."}.

TLC's cost model clones an operator's body at every call site.  Two consequences are handled here:
  * Rat.tla: see thin_rat() (bodies of the Java-overridden operators are irrelevant and are cut out);
  * DemesIOMC: the laws built on Import(Export(..)) have a cost model of > 10^7 nodes (not built within 15 min).  For
    the modules in PROBED only the listed laws are covered; the guards of the others are checked to be reachable by a
    second, plain TLC run that prints which guards hold in some state (module VacProbe_<M>, generated).
"""
import argparse, fnmatch, json, os, re, shutil, signal, subprocess, sys, tempfile, time
from concurrent.futures import ThreadPoolExecutor

VERIF = os.path.dirname(os.path.dirname(os.path.abspath(__file__)))
SPEC = os.path.join(VERIF, 'spec')
CLASSES = os.path.join(VERIF, 'build', 'classes')
TLA_CP = '/opt/veriftools/tla/tla2tools.jar:/opt/veriftools/tla/CommunityModules-deps.jar'
ALLOW = os.path.join(VERIF, 'harness', 'vacuity_allow.json')
MIN_STATES = 20

# (module, cfg, tier, expect) -- expect: 'pass' (law configs and exhaustive generators) or 'fail' (refutation configs,
# only confirmed to fail; no coverage demanded).  Kept in step with the drivers: `python -m harness.vacuity --list-unknown`
# prints every spec/*MC*.cfg that is not in this table.
Q, T = 'quick', 'thorough'
CONFIGS = [
    ('CoalescentMC', 'CoalescentMC_quick.cfg', Q, 'pass'), ('CoalescentMC', 'CoalescentMC_thorough.cfg', T, 'pass'),
    ('SchemeMC', 'SchemeMC_C02_quick.cfg', Q, 'pass'), ('SchemeMC', 'SchemeMC_C02_thorough.cfg', T, 'pass'),
    ('SchemeMC', 'SchemeMC_C03_quick.cfg', Q, 'pass'), ('SchemeMC', 'SchemeMC_C03_thorough.cfg', T, 'pass'),
    ('SchemeMC', 'SchemeMC_C04_quick.cfg', Q, 'pass'), ('SchemeMC', 'SchemeMC_C04_thorough.cfg', T, 'pass'),
    ('IntegratorMC', 'IntegratorMC.cfg', Q, 'pass'),
    ('SamplingMC', 'SamplingMC_quick.cfg', Q, 'pass'), ('SamplingMC', 'SamplingMC_thorough.cfg', T, 'pass'),
    ('PhiOpsMC', 'PhiOpsMC_quick.cfg', Q, 'pass'), ('PhiOpsMC', 'PhiOpsMC_thorough.cfg', T, 'pass'),
    ('ExtrapMC', 'ExtrapMC_quick.cfg', Q, 'pass'), ('ExtrapMC', 'ExtrapMC_thorough.cfg', T, 'pass'),
    ('SpectrumOpsMC', 'SpectrumOpsMC_C08_quick.cfg', Q, 'pass'), ('SpectrumOpsMC', 'SpectrumOpsMC_C08_thoroughA.cfg', T, 'pass'),
    ('SpectrumOpsMC', 'SpectrumOpsMC_C08_thoroughB.cfg', T, 'pass'),
    ('SpectrumOpsMC', 'SpectrumOpsMC_C09_quick.cfg', Q, 'pass'), ('SpectrumOpsMC', 'SpectrumOpsMC_C09_thoroughA.cfg', T, 'pass'),
    ('SpectrumOpsMC', 'SpectrumOpsMC_C09_thoroughB.cfg', T, 'pass'),
    ('SpectrumOpsMC', 'SpectrumOpsMC_C10_quick.cfg', Q, 'pass'), ('SpectrumOpsMC', 'SpectrumOpsMC_C10_thoroughA.cfg', T, 'pass'),
    ('SpectrumOpsMC', 'SpectrumOpsMC_C10_thoroughB.cfg', T, 'pass'),
    ('LikelihoodMC', 'LikelihoodMC_quick.cfg', Q, 'pass'), ('LikelihoodMC', 'LikelihoodMC_thorough.cfg', T, 'pass'),
    ('OptimizerMC', 'OptimizerMC_quick.cfg', Q, 'pass'), ('OptimizerMC', 'OptimizerMC_thorough.cfg', T, 'pass'),
    ('OptimizerMC', 'OptimizerMC_thorough2.cfg', T, 'pass'),
    ('OptimizerMC', 'OptimizerMC_bug_eval_oob.cfg', Q, 'fail'), ('OptimizerMC', 'OptimizerMC_bug_fixed_lost.cfg', Q, 'fail'),
    ('OptimizerMC', 'OptimizerMC_bug_ret_oob.cfg', Q, 'fail'), ('OptimizerMC', 'OptimizerMC_bug_ret_start.cfg', Q, 'fail'),
    ('OptimizerMC', 'OptimizerMC_bug_ret_worst.cfg', Q, 'fail'), ('OptimizerMC', 'OptimizerMC_bug_wrong_start.cfg', Q, 'fail'),
    ('DataDictMC', 'DataDictMC_geno1_quick.cfg', Q, 'pass'), ('DataDictMC', 'DataDictMC_geno1_thorough.cfg', T, 'pass'),
    ('DataDictMC', 'DataDictMC_geno2_quick.cfg', Q, 'pass'), ('DataDictMC', 'DataDictMC_geno2_thorough.cfg', T, 'pass'),
    ('DataDictMC', 'DataDictMC_geno2b_thorough.cfg', T, 'pass'),
    ('DataDictMC', 'DataDictMC_flags_quick.cfg', Q, 'pass'), ('DataDictMC', 'DataDictMC_flags_thorough.cfg', T, 'pass'),
    ('SpectrumIOMC', 'SpectrumIOMC_quick.cfg', Q, 'pass'), ('SpectrumIOMC', 'SpectrumIOMC_thorough.cfg', T, 'pass'),
    ('DemoMachineMC', 'DemoMachineMC_quick.cfg', Q, 'pass'), ('DemoMachineMC', 'DemoMachineMC_thorough.cfg', T, 'pass'),
    ('DemesIOMC', 'DemesIOMC_quick.cfg', Q, 'pass'), ('DemesIOMC', 'DemesIOMC_thorough.cfg', T, 'pass'),
    ('DemesIOMC', 'DemesIOMC_rich_thorough.cfg', T, 'pass'),
    ('DFECacheMC', 'DFECacheMC_quick.cfg', Q, 'pass'), ('DFECacheMC', 'DFECacheMC_thorough.cfg', T, 'pass'),
    ('DFECacheMC', 'DFECacheMC_die.cfg', Q, 'fail'),
    ('DFECacheMC', 'DFECacheMC_paths.cfg', Q, 'pass'), ('DFECacheMC', 'DFECacheMC_paths4.cfg', Q, 'pass'),
    ('DFECacheMC', 'DFECacheMC_paths7.cfg', T, 'pass'),
    ('DFEQuadMC', 'DFEQuadMC_quick.cfg', Q, 'pass'), ('DFEQuadMC', 'DFEQuadMC_thorough.cfg', T, 'pass'),
    ('LowPassMC', 'LowPassMC_quick.cfg', Q, 'pass'), ('LowPassMC', 'LowPassMC_thorough.cfg', T, 'pass'),
    ('GodambeMC', 'GodambeMC_stencil_quick.cfg', Q, 'pass'), ('GodambeMC', 'GodambeMC_stencil_thorough.cfg', T, 'pass'),
    ('GodambeMC', 'GodambeMC_stats_quick.cfg', Q, 'pass'), ('GodambeMC', 'GodambeMC_stats_thorough.cfg', T, 'pass'),
    ('GodambeMC', 'GodambeMC_cache_quick.cfg', Q, 'pass'), ('GodambeMC', 'GodambeMC_cache_thorough.cfg', T, 'pass'),
    ('GodambeMC', 'GodambeMC_cache_hashkey.cfg', Q, 'fail'), ('GodambeMC', 'GodambeMC_cache_dropgrid.cfg', Q, 'fail'),
    ('GodambeMC', 'GodambeMC_cache_dropns.cfg', Q, 'fail'), ('GodambeMC', 'GodambeMC_cache_dropparams.cfg', Q, 'fail'),
    ('Memo', 'MemoMC_quick.cfg', Q, 'pass'), ('Memo', 'MemoMC_graph.cfg', Q, 'pass'), ('Memo', 'MemoMC_layout_quick.cfg', Q, 'pass'),
    ('Memo', 'MemoMC_god_quick.cfg', Q, 'pass'), ('Memo', 'MemoMC_god_thorough.cfg', T, 'pass'),
    ('Memo', 'MemoMC_thorough.cfg', T, 'pass'), ('Memo', 'MemoMC_memo3_thorough.cfg', T, 'pass'),
    ('Memo', 'MemoMC_layout_thorough.cfg', T, 'pass'),
] + [('Memo', 'MemoMC_bug_%s.cfg' % b, Q if b in ('dbetakey', 'godaddr', 'raw45', 'kernelstate', 'hashorder', 'latecopy', 'vector') else T, 'fail')
     for b in ('dbetakey', 'demes', 'godaddr', 'hashorder', 'kernelstate', 'latecopy', 'partkey', 'perturb', 'projkey', 'raw45', 'rawxx', 'sfslist', 'vector')] + [
    ('MsIOMC', 'MsIOMC_quick.cfg', Q, 'pass'), ('MsIOMC', 'MsIOMC_thorough.cfg', T, 'pass'),
    ('SchemeXMC', 'SchemeXMC_quick.cfg', Q, 'pass'), ('SchemeXMC', 'SchemeXMC_thorough.cfg', T, 'pass'),
    ('TriSpectrumMC', 'TriSpectrumMC_quick.cfg', Q, 'pass'), ('TriSpectrumMC', 'TriSpectrumMC_thorough.cfg', T, 'pass'),
    ('TLSpectrumMC', 'TLSpectrumMC_quick.cfg', Q, 'pass'), ('TLSpectrumMC', 'TLSpectrumMC_thoroughA.cfg', T, 'pass'),
    ('TLSpectrumMC', 'TLSpectrumMC_thoroughB.cfg', T, 'pass'), ('TLSpectrumMC', 'TLSpectrumMC_thoroughC.cfg', T, 'pass'),
]
# simulation-only generators (state space not enumerable; no laws): never run here
NOT_EXHAUSTIVE = {'DemesIOMC_gen.cfg', 'DemesIOMC_gen5.cfg', 'MemoMC_sim_all.cfg', 'MemoMC_sim_memo.cfg',
                  'DFECacheMC_paths2.cfg', 'DFECacheMC_paths3.cfg', 'DFECacheMC_paths5.cfg', 'DFECacheMC_paths6.cfg', 'RatSelfTest.cfg'}


# modules whose laws cannot be covered by TLC's cost model: laws that can, and guards (law, name, state predicate) that
# must hold in at least one reachable state of every configuration of the module
PROBED = {
    'DemesIOMC': {
        'laws': ['L_Exportable', 'L_ExportUnits'],
        'probes': [
            ('L_AncientFrozen', 'guard', 'prog[N].k = "int" /\\ NP >= 2 /\\ NP <= 4'),
            ('L_AncientFrozen', 'MidSize-constant', 'prog[N].k = "int" /\\ NP >= 2 /\\ NP <= 4 /\\ \\E i \\in 1..NP : prog[N].sizes[i].fn = "constant"'),
            ('L_AncientFrozen', 'MidSize-linear',
             'prog[N].k = "int" /\\ NP >= 2 /\\ NP <= 4 /\\ \\E i \\in 1..NP : prog[N].sizes[i].fn = "linear" /\\ prog[N].sizes[i].s0 # prog[N].sizes[i].s1'),
            ('L_AncientFrozen', 'MidSize-exponential',
             'prog[N].k = "int" /\\ NP >= 2 /\\ NP <= 4 /\\ \\E i \\in 1..NP : prog[N].sizes[i].fn = "exponential" /\\ prog[N].sizes[i].s0 # prog[N].sizes[i].s1'),
            ('L_AncientBoundary', 'guard', 'N >= 3 /\\ prog[N].k = "int" /\\ prog[N - 1].k = "int"'),
            ('L_RoundTrip', 'split', '\\E j \\in 1..N : prog[j].k = "split" /\\ \\E i \\in DOMAIN prog[j].props : prog[j].props[i] = "1"'),
            ('L_RoundTrip', 'admixture', '\\E j \\in 1..N : prog[j].k = "split" /\\ \\A i \\in DOMAIN prog[j].props : prog[j].props[i] # "1"'),
            ('L_RoundTrip', 'pulse', '\\E j \\in 1..N : prog[j].k = "pulse"'),
            ('L_RoundTrip', 'remove', '\\E j \\in 1..N : prog[j].k = "remove"'),
            ('L_RoundTrip', 'reorder', '\\E j \\in 1..N : prog[j].k = "reorder"'),
            ('L_RoundTrip', 'migration', '\\E j \\in 1..N : prog[j].k = "int" /\\ \\E a, b \\in DOMAIN prog[j].mig : prog[j].mig[a][b] # "0"'),
            ('L_Permute', 'three-populations', 'NP = 3'),
        ]},
}

# measured wall seconds (4 workers, thin Rat, busy machine) -- only used to start the long runs first
COST = {'SpectrumOpsMC_C10_quick.cfg': 215, 'TLSpectrumMC_quick.cfg': 77, 'SpectrumIOMC_quick.cfg': 67, 'MsIOMC_quick.cfg': 53,
        'SchemeMC_C03_quick.cfg': 44, 'SpectrumOpsMC_C08_quick.cfg': 34, 'SpectrumOpsMC_C09_quick.cfg': 34, 'LikelihoodMC_quick.cfg': 28,
        'SchemeMC_C02_quick.cfg': 27, 'SchemeMC_C04_quick.cfg': 26, 'DataDictMC_flags_quick.cfg': 26, 'LowPassMC_quick.cfg': 25,
        'SpectrumOpsMC_C10_thoroughA.cfg': 900, 'SpectrumOpsMC_C10_thoroughB.cfg': 900, 'TriSpectrumMC_thorough.cfg': 800,
        'SchemeMC_C03_thorough.cfg': 800, 'TLSpectrumMC_thoroughB.cfg': 590, 'MsIOMC_thorough.cfg': 550, 'SpectrumIOMC_thorough.cfg': 550,
        'LowPassMC_thorough.cfg': 550, 'SchemeMC_C02_thorough.cfg': 500, 'SchemeMC_C04_thorough.cfg': 500, 'DataDictMC_flags_thorough.cfg': 450,
        'MemoMC_thorough.cfg': 450, 'TLSpectrumMC_thoroughA.cfg': 400, 'MemoMC_layout_thorough.cfg': 380, 'DFEQuadMC_thorough.cfg': 320,
        'DataDictMC_geno1_thorough.cfg': 310, 'DemoMachineMC_thorough.cfg': 300, 'DataDictMC_geno2b_thorough.cfg': 285,
        'LikelihoodMC_thorough.cfg': 270, 'TLSpectrumMC_thoroughC.cfg': 270, 'SpectrumOpsMC_C08_thoroughB.cfg': 270,
        'SpectrumOpsMC_C09_thoroughB.cfg': 300, 'CoalescentMC_thorough.cfg': 200, 'MemoMC_memo3_thorough.cfg': 190}
LONG_POLE = {'SpectrumOpsMC_C10_quick.cfg'}

_LOC = r'line (\d+), col (\d+) to line (\d+), col (\d+) of module (\w+)'
_HEAD = re.compile(r'^<(\w+) ' + _LOC + r'(?: \((\d+) (\d+) (\d+) (\d+)\))?>(?:: (\d+)(?::(\d+))?)?\s*$')
_SUB = re.compile(r'^  (\|*)' + _LOC + r': (\d+)(?::(\d+))?\s*$')
_STATES = re.compile(r'(\d+) states generated, (\d+) distinct states found, (\d+) states left on queue')


# ------------------------------------------------------------------------------------------ TLC's coverage statistics
class Node:
    __slots__ = ('depth', 'loc', 'count', 'cost', 'children')

    def __init__(self, depth, loc, count, cost):
        self.depth, self.loc, self.count, self.cost, self.children = depth, loc, count, cost, []


class Head:
    """<Name line .. of module M>: distinct:generated   (action / init predicate)
       <Name line .. of module M (l1 c1 l2 c2)>: d:g    (unnamed disjunct of the definition Name; .sub = its location)
       <Name line .. of module M>                       (invariant)
       <name line .. of module M>: n                    (variable: number of distinct values, not used)"""

    def __init__(self, name, loc, a, b, sub=None):
        self.name, self.loc, self.a, self.b, self.sub, self.children = name, loc, a, b, sub, []

    @property
    def kind(self):
        return 'law' if self.a is None else 'var' if self.b is None else 'action'


def parse_coverage(out):
    """The last coverage block of a TLC run -> list of Head (None if there is none)."""
    k = out.rfind('The coverage statistics at')
    if k < 0:
        return None
    heads, stack = [], []
    for ln in out[k:].split('\n')[1:]:
        if ln.startswith('End of statistics'):
            break
        m = _HEAD.match(ln)
        if m:
            g = m.groups()
            sub = None if g[6] is None else (int(g[6]), int(g[7]), int(g[8]), int(g[9]), g[5])
            heads.append(Head(g[0], (int(g[1]), int(g[2]), int(g[3]), int(g[4]), g[5]),
                              None if g[10] is None else int(g[10]), None if g[11] is None else int(g[11]), sub))
            stack = []
            continue
        m = _SUB.match(ln)
        if m and heads:
            g = m.groups()
            n = Node(len(g[0]), (int(g[1]), int(g[2]), int(g[3]), int(g[4]), g[5]), int(g[6]), None if g[7] is None else int(g[7]))
            while stack and stack[-1].depth >= n.depth:
                stack.pop()
            (stack[-1].children if stack else heads[-1].children).append(n)
            stack.append(n)
        elif ln.startswith('<') or ln.startswith('  '):
            raise ValueError('unparsed line of the coverage statistics: %r' % ln)
    return heads


_src_cache = {}


def source(loc, limit=110):
    """Whitespace-normalised source text of a location (comments dropped), cut to `limit` characters."""
    l1, c1, l2, c2, mod = loc
    if mod not in _src_cache:
        try:
            with open(os.path.join(SPEC, mod + '.tla')) as f:
                _src_cache[mod] = f.read().split('\n')
        except OSError:
            _src_cache[mod] = None
    lines = _src_cache[mod]
    if lines is None or l2 > len(lines):
        return '%s:%d:%d' % (mod, l1, c1)
    if l1 == l2:
        txt = lines[l1 - 1][c1 - 1:c2]
    else:
        txt = '\n'.join([lines[l1 - 1][c1 - 1:]] + lines[l1:l2 - 1] + [lines[l2 - 1][:c2]])
    txt = re.sub(r'\s+', ' ', re.sub(r'\\\*[^\n]*', ' ', txt)).strip()
    return txt if len(txt) <= limit else txt[:limit - 3] + '...'


def dead_nodes(children):
    """Top-most never-evaluated sub-expressions."""
    res = []
    for n in children:
        if n.count == 0:
            res.append(n)
        else:
            res += dead_nodes(n.children)
    return res


def rare_nodes(children, parent, limit):
    """Sub-expressions evaluated at most `limit` times although their parent was evaluated 10 times more often (--report only)."""
    res = []
    for n in children:
        if 0 < n.count <= limit and parent > 10 * n.count:
            res.append(n)
        else:
            res += rare_nodes(n.children, n.count, limit)
    return res


def findings_of(cfg, out, states, rare=0):
    """-> list of dict(cfg, kind, where, expr, detail), or None if the output has no coverage statistics."""
    heads = parse_coverage(out)
    if heads is None:
        return None
    f = []
    at = lambda n: '%s:%d:%d' % (n.loc[4], n.loc[0], n.loc[1])
    for h in heads:
        if h.kind == 'action':
            sub = source(h.sub, 60) if h.sub else ''
            if h.b == 0:
                f.append({'cfg': cfg, 'kind': 'action', 'where': h.name, 'expr': sub, 'detail': 'never taken (%d:%d)' % (h.a, h.b)})
                continue
            if h.a == 0:
                f.append({'cfg': cfg, 'kind': 'action', 'where': h.name, 'expr': sub, 'detail': 'never finds a new state (%d:%d)' % (h.a, h.b)})
            for n in dead_nodes(h.children):
                f.append({'cfg': cfg, 'kind': 'branch', 'where': h.name, 'expr': source(n.loc), 'detail': at(n) + ' never evaluated'})
        elif h.kind == 'law':
            for n in dead_nodes(h.children):
                f.append({'cfg': cfg, 'kind': 'law', 'where': h.name, 'expr': source(n.loc), 'detail': at(n) + ' never evaluated'})
            if rare:
                for n in rare_nodes(h.children, max([c.count for c in h.children] + [0]), rare):
                    f.append({'cfg': cfg, 'kind': 'rare', 'where': h.name, 'expr': source(n.loc), 'detail': at(n) + ' evaluated only %d times' % n.count})
    if states < MIN_STATES:
        f.append({'cfg': cfg, 'kind': 'tiny', 'where': '', 'expr': '', 'detail': 'only %d distinct states' % states})
    seen, uniq = set(), []      # the same source expression may be dead on several call paths: one finding
    for x in f:
        k = (x['kind'], x['where'], x['expr'])
        if k not in seen:
            seen.add(k)
            uniq.append(x)
    return uniq


# ------------------------------------------------------------------------------------------ allow-list
def load_allow():
    if not os.path.exists(ALLOW):
        return []
    with open(ALLOW) as f:
        ents = json.load(f)['entries']
    for e in ents:
        if not e.get('reason') or e.get('kind') not in ('action', 'branch', 'law', 'tiny'):
            raise SystemExit('vacuity_allow.json: entry without a reason / with an unknown kind: %r' % (e,))
    return ents


def allowed(x, allow):
    for e in allow:
        if (fnmatch.fnmatch(x['cfg'], e['cfg']) and e['kind'] == x['kind'] and e.get('where', '') == x['where']
                and x['expr'].startswith(e.get('expr', ''))):
            e['_used'] = True
            return e
    return None


# ------------------------------------------------------------------------------------------ running TLC
_OVERRIDE = re.compile(r'public static Value (\w+)\(')
_DEF = re.compile(r'^(\w+)\(([^)]*)\)\s*==')


def thin_rat(text, overridden):
    """Rat.tla with the TLA+ bodies of the Java-overridden operators replaced by a constant.

    TLC never evaluates those bodies (the class Rat on the classpath does), but its coverage cost model clones the body
    of an operator at every call site: with the real bodies (AddDef -> NormDef -> GCD ...) the cost model of a numeric
    spec has 10^7 nodes, needs > 8 GB and slows TLC down 10-50 fold (measured: 7 of the 36 quick configurations run out
    of memory).  Positions in all other modules are unchanged, and the evaluation counts outside module Rat are
    identical to those of a run with the real Rat.tla (compared on 33 configurations).  run_tlc() insists that TLC
    reports every one of these overrides as loaded.  --real-rat uses the real module."""
    out, skip = [], False
    for ln in text.split('\n'):
        m = _DEF.match(ln)
        if m:
            skip = m.group(1) in overridden
            if skip:
                out.append('%s(%s) == "0"' % (m.group(1), m.group(2)))
                continue
        elif ln[:1] not in (' ', '\t', ''):
            skip = False
            r = re.match(r'^RECURSIVE (\w+)\(', ln)
            if r and r.group(1) in overridden:
                continue
        if not skip:
            out.append(ln)
    return '\n'.join(out)


def _cfg_without_laws(text, keep):
    return '\n'.join(ln for ln in text.split('\n') if not re.match(r'\s*(INVARIANTS?|PROPERTY|PROPERTIES)\b', ln)
                     or (ln.split() + ['', ''])[1] in keep) + '\n'


def prepare_spec_dir(root, real_rat=False):
    """Scratch copy of spec/ (modules, configurations); thin Rat.tla; reduced configurations and probe modules for the
    modules in PROBED.  Returns (dir, names of the overridden operators that must be reported as loaded)."""
    d = os.path.join(root, 'spec')
    os.makedirs(d, exist_ok=True)
    for f in os.listdir(SPEC):
        if f.endswith('.tla') or f.endswith('.cfg'):
            shutil.copy(os.path.join(SPEC, f), os.path.join(d, f))
    must = []
    if not real_rat:
        with open(os.path.join(SPEC, 'java', 'Rat.java')) as f:
            overridden = set(_OVERRIDE.findall(f.read()))
        with open(os.path.join(SPEC, 'Rat.tla')) as f:
            text = f.read()
        with open(os.path.join(d, 'Rat.tla'), 'w') as f:
            f.write(thin_rat(text, overridden))
        must = sorted(overridden & {m.group(1) for m in (_DEF.match(ln) for ln in text.split('\n')) if m})
    for mod, spec in PROBED.items():
        with open(os.path.join(d, 'VacProbe_%s.tla' % mod), 'w') as f:
            f.write('---- MODULE VacProbe_%s ----\nEXTENDS %s\nVacProbe ==\n' % (mod, mod))
            for k, (law, name, guard) in enumerate(spec['probes']):
                f.write('    /\\ (IF %s THEN PrintT(<<"VACPROBE", %d>>) ELSE TRUE)\n' % (guard, k))
            f.write('====\n')
        for m, cfg, _t, expect in CONFIGS:
            if m == mod and expect == 'pass':
                with open(os.path.join(SPEC, cfg)) as f:
                    text = f.read()
                with open(os.path.join(d, 'VacCov_' + cfg), 'w') as f:
                    f.write(_cfg_without_laws(text, spec['laws']))
                with open(os.path.join(d, 'VacProbe_' + cfg), 'w') as f:
                    f.write(_cfg_without_laws(text, ()) + 'INVARIANT VacProbe\n')
    return d, must


def run_tlc(module, cfg, workers, timeout, root, cwd, must_load=(), heap='8g', coverage=True, label=None):
    """The command line of harness.common.run_mc -> tlc (8g heap) plus -coverage 1; own process group, so that a timeout kills the JVM."""
    metadir = tempfile.mkdtemp(prefix='meta-', dir=root)
    cmd = ['java', '-XX:+UseParallelGC', '-Xmx' + heap, '-Xss64m', '-cp', TLA_CP + ':' + CLASSES, 'tlc2.TLC', '-metadir', metadir,
           '-noGenerateSpecTE', '-workers', str(workers)] + (['-coverage', '1'] if coverage else []) + ['-config', cfg, module + '.tla']
    t0 = time.time()
    p = subprocess.Popen(cmd, cwd=cwd, stdout=subprocess.PIPE, stderr=subprocess.STDOUT, start_new_session=True)
    try:
        out, _ = p.communicate(timeout=timeout)
        timed_out = False
    except subprocess.TimeoutExpired:
        os.killpg(p.pid, signal.SIGKILL)
        out, _ = p.communicate()
        timed_out = True
    shutil.rmtree(metadir, ignore_errors=True)
    out = out.decode(errors='replace')
    with open(os.path.join(root, (label or cfg) + '.out'), 'w') as f:
        f.write(out)
    return _result(module, cfg, out, time.time() - t0, timed_out, p.returncode, must_load)


def _result(module, cfg, out, wall, timed_out, rc, must_load=()):
    if must_load and 'Starting...' in out and re.search(r'Parsing file \S*/Rat\.tla', out):
        missing = [o for o in must_load if 'Loading %s operator override' % o not in out]
        if missing:
            out = 'Error: vacuity: the Java overrides %s were not loaded: the thin Rat.tla must not be used\n' % missing
    ms = _STATES.findall(out) or re.findall(r'([\d,]+) states generated \(.*?\), ([\d,]+) distinct states found \(.*?\), ([\d,]+) states left', out)
    ms = [tuple(x.replace(',', '') for x in m) for m in ms]
    return {'module': module, 'cfg': cfg, 'out': out, 'wall': wall, 'timed_out': timed_out, 'rc': rc,
            'generated': int(ms[-1][0]) if ms else 0, 'states': int(ms[-1][1]) if ms else 0,
            'ok': 'Model checking completed. No error has been found.' in out,
            'violated': ('is violated' in out or 'Deadlock reached' in out or 'properties were violated' in out)}


def _one(c, workers, timeout, root, cwd, must, reread):
    """All TLC runs of one configuration -> (coverage result, probe result or None)."""
    module, cfg, _t, expect = c
    if reread:
        def rd(name):
            with open(os.path.join(reread, name + '.out')) as f:
                o = f.read()
            return _result(module, cfg, o, 0.0, 'Finished in' not in o and 'Error:' not in o, 0)
        return rd(cfg), (rd('VacProbe_' + cfg) if module in PROBED and expect == 'pass' else None)
    if expect == 'fail':
        return run_tlc(module, cfg, 2, timeout, root, cwd, must, coverage=False), None
    if cfg in LONG_POLE:
        workers *= 2            # the long pole of the quick tier gets twice the workers
    if module in PROBED:
        r = run_tlc(module, 'VacCov_' + cfg, workers, timeout, root, cwd, must, label=cfg)
        pr = run_tlc('VacProbe_' + module, 'VacProbe_' + cfg, workers, timeout, root, cwd, must, coverage=False, label='VacProbe_' + cfg)
        r['wall'] += pr['wall']
        return r, pr
    return run_tlc(module, cfg, workers, timeout, root, cwd, must), None


def audit(tier='quick', only=None, skip=None, jobs=4, workers=4, timeout=900, keep=None, report=False, reread=None, real_rat=False, out=sys.stdout):
    if not os.path.exists(os.path.join(CLASSES, 'Rat.class')):
        print('build/classes/Rat.class missing: run ./setup.sh', file=out)
        return 2
    sel = [c for c in CONFIGS if (tier == 'all' or c[2] == tier) and (not only or any(o in c[1] for o in only))
           and not (skip and any(o in c[1] for o in skip))]
    allow = load_allow()
    t0 = time.time()
    root = None
    if reread:
        sel = [c for c in sel if os.path.exists(os.path.join(reread, c[1] + '.out'))]
        cwd, must = None, ()
    else:
        root = keep or tempfile.mkdtemp(prefix='vac-', dir='/var/tmp')
        os.makedirs(root, exist_ok=True)
        cwd, must = prepare_spec_dir(root, real_rat)
    try:
        order = sorted(sel, key=lambda c: -COST.get(c[1], 20 if c[3] == 'pass' else 1))      # long runs first
        with ThreadPoolExecutor(max_workers=jobs) as ex:
            futs = {c: ex.submit(_one, c, workers, timeout, root, cwd, must, reread) for c in order}
            res = [(c, futs[c].result()) for c in sel]
    finally:
        if root and not keep:
            shutil.rmtree(root, ignore_errors=True)
    bad, machinery, rows = [], [], []
    for (module, cfg, _t, expect), (r, pr) in res:
        if r['timed_out'] or (pr and pr['timed_out']):
            # the statistics TLC printed last (every minute) are a lower bound: what they show as exercised is exercised
            try:
                fs = findings_of(cfg, r['out'], MIN_STATES) if expect == 'pass' and not (pr and pr['timed_out']) else None
            except ValueError:
                fs = None
            left = None if fs is None else [x for x in fs if not allowed(x, allow)]
            if left == []:
                rows.append((cfg, r['states'], r['wall'], 'TIMEOUT after %ds, but everything was exercised by then (%d dead, all allowed)' % (timeout, len(fs))))
            else:
                machinery.append('%s: timed out after %ds%s' % (cfg, timeout, '' if left is None else '; not exercised by then: ' + '; '.join(
                    '%s %s %r' % (x['kind'], x['where'], x['expr']) for x in left[:8])))
                rows.append((cfg, r['states'], r['wall'], 'TIMEOUT (inconclusive)'))
            continue
        if expect == 'fail':
            refuted = r['violated'] and not r['ok']
            if not refuted:
                bad.append({'cfg': cfg, 'kind': 'refutation', 'where': '', 'expr': '', 'detail': 'the defective design was NOT refuted'})
            rows.append((cfg, r['states'], r['wall'], 'refuted as expected' if refuted else 'NOT REFUTED'))
            continue
        for q in (r, pr):
            if q and not q['ok']:
                if q['violated']:
                    m = re.search(r'Error: (.*(?:violated|reached).*)', q['out'])
                    bad.append({'cfg': cfg, 'kind': 'violation', 'where': '', 'expr': '', 'detail': 'TLC: ' + (m.group(1) if m else 'violation')})
                else:
                    machinery.append('%s: TLC failed (rc %s)\n%s' % (cfg, q['rc'], '\n'.join(l for l in q['out'].split('\n') if not l.startswith('Loading '))[-1500:]))
        if not r['ok'] or (pr and not pr['ok']):
            rows.append((cfg, r['states'], r['wall'], 'FAILED'))
            continue
        try:
            fs = findings_of(cfg, r['out'], r['states'], rare=3 if report else 0)
        except ValueError as ex:
            fs = None
            machinery.append('%s: %s' % (cfg, ex))
        if fs is None:
            machinery.append('%s: no coverage statistics in the TLC output' % cfg)
            continue
        note = ''
        if pr:
            hit = {int(k) for k in re.findall(r'<<"VACPROBE", (\d+)>>', pr['out'])}
            for k, (law, name, guard) in enumerate(PROBED[module]['probes']):
                if k not in hit:
                    fs.append({'cfg': cfg, 'kind': 'law', 'where': law, 'expr': 'probe ' + name, 'detail': 'no reachable state satisfies ' + guard})
            note = '; laws %s covered, the others by %d reachability probes' % (','.join(PROBED[module]['laws']), len(PROBED[module]['probes']))
        new = [x for x in fs if x['kind'] != 'rare' and not allowed(x, allow)]
        bad += new
        nd = len([x for x in fs if x['kind'] != 'rare'])
        rows.append((cfg, r['states'], r['wall'], '%d dead, %d of them allowed%s' % (nd, nd - len(new), note)))
        if report:
            for x in fs:
                e = allowed(x, allow) if x['kind'] != 'rare' else None
                print('  %-32s %-7s %-20s %s   [%s]%s' % (cfg, x['kind'], x['where'], x['expr'], x['detail'], '  ALLOWED: ' + e['reason'] if e else ''), file=out)
    print('%-36s %10s %7s  %s' % ('config', 'distinct', 'wall_s', 'coverage'), file=out)
    for cfg, st, w, note in rows:
        print('%-36s %10d %7.1f  %s' % (cfg, st, w, note), file=out)
    if tier == 'all' and not only and not skip:
        for e in allow:
            if not e.get('_used'):
                print('note: allow-list entry matches nothing any more: %s %s %s %r' % (e['cfg'], e['kind'], e.get('where', ''), e.get('expr', '')), file=out)
    for u in unknown_cfgs():
        print('note: spec/%s is not in the CONFIGS table of harness/vacuity.py (not audited)' % u, file=out)
    print('vacuity: %d configurations, %.0f s wall' % (len(sel), time.time() - t0), file=out)
    for m in machinery:
        print('MACHINERY ' + m, file=out)
    for x in bad:
        print('VACUOUS %s %s %s %r  -- %s' % (x['cfg'], x['kind'], x['where'], x['expr'], x['detail']), file=out)
    return 2 if machinery else 1 if bad else 0


def unknown_cfgs():
    known = {c[1] for c in CONFIGS} | NOT_EXHAUSTIVE
    return sorted(f for f in os.listdir(SPEC) if f.endswith('.cfg') and f not in known and not f.startswith('Trace_'))


def list_unknown():
    un = unknown_cfgs()
    for u in un:
        print(u)
    return 1 if un else 0


def main(argv=None):
    ap = argparse.ArgumentParser(description='Vacuity guard for the exhaustive TLC models (see the module docstring)')
    ap.add_argument('--tier', default='quick', choices=['quick', 'thorough', 'all'])
    ap.add_argument('--only', action='append', help='substring of the cfg name (repeatable)')
    ap.add_argument('--skip', action='append', help='substring of cfg names to leave out (repeatable)')
    ap.add_argument('--jobs', type=int, default=4, help='TLC processes in parallel')
    ap.add_argument('--workers', type=int, default=4, help='TLC workers per process')
    ap.add_argument('--timeout', type=int, default=900, help='seconds per TLC run')
    ap.add_argument('--keep', help='directory (under /var/tmp) to keep the raw TLC outputs in')
    ap.add_argument('--from', dest='reread', help='judge the outputs kept in this directory instead of running TLC')
    ap.add_argument('--real-rat', action='store_true', help='use the full Rat.tla (slow, memory hungry: see thin_rat)')
    ap.add_argument('--report', action='store_true', help='print every dead / rarely evaluated expression, allowed or not')
    ap.add_argument('--list-unknown', action='store_true', help='list spec/*.cfg files this table does not know')
    a = ap.parse_args(argv)
    if a.list_unknown:
        return list_unknown()
    return audit(a.tier, a.only, a.skip, a.jobs, a.workers, a.timeout, a.keep, a.report, a.reread, a.real_rat)


if __name__ == '__main__':
    sys.exit(main())
