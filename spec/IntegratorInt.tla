--------------------------- MODULE IntegratorInt ---------------------------
(***************************************************************************)
(* The integrator driver of module Integrator with time measured in        *)
(* integer ticks, written for Apalache: an INDUCTIVE invariant shows, for  *)
(* every horizon T >= 0, every number of populations 1..5, every set of    *)
(* frozen populations and EVERY sequence of values of the time-step rule   *)
(* (any positive number of ticks, chosen afresh in each step), that the    *)
(* driver never passes T, lands exactly on T, sweeps every live population *)
(* exactly once per step and no frozen one, injects once per step, and     *)
(* takes at most T steps (hence terminates).  TLC checks the same laws on  *)
(* the finite configurations of IntegratorMC; this module removes the      *)
(* bound.  The rational arithmetic of the real rule is not needed for      *)
(* these laws: only that a step is positive and cut at the horizon.        *)
(*                                                                         *)
(*   apalache-mc check --cinit=CInit --init=Init    --inv=IndInv --length=0 IntegratorInt.tla *)
(*   apalache-mc check --cinit=CInit --init=IndInit --inv=IndInv --length=1 IntegratorInt.tla *)
(*   apalache-mc check --cinit=CInit --init=IndInit --inv=Laws   --length=0 IntegratorInt.tla *)
(***************************************************************************)
EXTENDS Integers, FiniteSets

CONSTANT
    \* @type: Int;
    P

VARIABLES
    \* @type: Int;
    t,
    \* @type: Int;
    T,
    \* @type: Str;
    phase,
    \* @type: Int;
    thisdt,
    \* @type: Set(Int);
    swept,
    \* @type: Set(Int);
    frozen,
    \* @type: Int;
    step,
    \* @type: Int;
    injected,
    \* @type: Int -> Int;
    sweeps

CInit == P \in 1..5
AllPops == 1..5                          \* Apalache wants constant ranges: the populations are those numbered <= P
Pops == {k \in AllPops : k <= P}
Live == Pops \ frozen
Phases == {"idle", "choose", "inject", "sweep", "done"}

Init == /\ T \in Nat /\ frozen \in SUBSET Pops
        /\ t = 0 /\ phase = "idle" /\ thisdt = 0 /\ swept = {} /\ step = 0 /\ injected = 0
        /\ sweeps = [k \in AllPops |-> 0]

Start == /\ phase = "idle"
         /\ phase' = IF T = 0 THEN "done" ELSE "choose"
         /\ UNCHANGED <<t, T, thisdt, swept, frozen, step, injected, sweeps>>
\* the rule yields some positive number of ticks; the step is cut at the horizon
ChooseDt == /\ phase = "choose"
            /\ \E d \in Nat : d >= 1 /\ thisdt' = IF d <= T - t THEN d ELSE T - t
            /\ phase' = "inject"
            /\ UNCHANGED <<t, T, swept, frozen, step, injected, sweeps>>
Inject == /\ phase = "inject"
          /\ injected' = injected + 1 /\ phase' = "sweep" /\ swept' = {}
          /\ UNCHANGED <<t, T, thisdt, frozen, step, sweeps>>
Sweep(k) == /\ phase = "sweep" /\ k \in Live /\ k \notin swept
            /\ \A j \in Live : j < k => j \in swept
            /\ swept' = swept \union {k}
            /\ sweeps' = [sweeps EXCEPT ![k] = @ + 1]
            /\ UNCHANGED <<t, T, phase, thisdt, frozen, step, injected>>
Advance == /\ phase = "sweep" /\ swept = Live
           /\ t' = t + thisdt /\ step' = step + 1
           /\ phase' = IF t + thisdt < T THEN "choose" ELSE "done"
           /\ swept' = {}
           /\ UNCHANGED <<T, thisdt, frozen, injected, sweeps>>
Next == Start \/ ChooseDt \/ Inject \/ (\E k \in Pops : Sweep(k)) \/ Advance

\* ---------------------------------------------------------------- inductive invariant
TypeOK == /\ t \in Int /\ T \in Int /\ phase \in Phases /\ thisdt \in Int /\ step \in Int /\ injected \in Int
          /\ swept \in SUBSET Pops /\ frozen \in SUBSET Pops
          /\ sweeps \in [AllPops -> Int]
Quiet == phase \in {"idle", "choose", "inject", "done"}
IndInv ==
    /\ TypeOK
    /\ 0 <= t /\ t <= T /\ 0 <= step /\ step <= t
    /\ (phase = "idle") => (t = 0 /\ step = 0)
    /\ (phase = "choose") => (t < T)
    /\ (phase \in {"inject", "sweep"}) => (thisdt >= 1 /\ t + thisdt <= T)
    /\ (phase = "done") => (t = T)
    /\ (phase \in {"idle", "choose", "done"}) => (swept = {})
    /\ Quiet => (injected = step /\ \A k \in Pops : sweeps[k] = (IF k \in Live THEN step ELSE 0))
    /\ (phase = "sweep") =>
          /\ injected = step + 1
          /\ swept \subseteq Live
          /\ \A k \in Live : \A j \in Live : (j < k /\ k \in swept) => j \in swept
          /\ \A k \in Pops : sweeps[k] = (IF k \in swept THEN step + 1 ELSE IF k \in Live THEN step ELSE 0)
\* the initial condition of the inductive step: any state satisfying the invariant
IndInit == IndInv

\* ---------------------------------------------------------------- the laws (consequences of IndInv)
Laws ==
    /\ t <= T                                                        \* NeverPastT
    /\ (phase = "done") => (t = T)                                   \* LandsOnT
    /\ (phase \in {"inject", "sweep"}) => (thisdt >= 1)              \* StepPositive
    /\ (phase \in {"choose", "done"}) => (injected = step /\ \A k \in Pops : sweeps[k] = (IF k \in Live THEN step ELSE 0))
    /\ step <= T                                                     \* at most T steps: the driver terminates
=============================================================================
