\* DEFECTIVE design (must be refuted): compute_cov_dist iterates over set(pop_ids): the coverage dict follows string-hash order
CONSTANTS
  MaxDepth = 1
  BaseSel = "memo"
  LaySel = "C"
  ProjKeyMode = "full"
  DbetaKeyMode = "full"
  PartKeyMode = "full"
  EntryMode = "copy_all"
  XXMode = "contig"
  GodMode = "object"
  DemesMode = "pure"
  PerturbMode = "pure"
  HashMode = "set_order"
  SFSMode = "copies"
  VectorMode = "copies"
  MaskMode = "setter"
  KernelMode = "stateless"
  MaxTable = 60
SPECIFICATION Spec
CHECK_DEADLOCK FALSE
CONSTRAINT TableBound
VIEW MCView
INVARIANT TypeOK
INVARIANT AlphabetOK
INVARIANT TablesSound
INVARIANT ResultIndependentOfHistory
INVARIANT ResultIndependentOfHashSeed
INVARIANT LayoutIndependent
INVARIANT ArgumentsUnchanged
INVARIANT ResultIsFresh
