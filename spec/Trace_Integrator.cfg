CONSTANT TauSolve = "1/100000000000"
CONSTANT TauLin = "1/10000000000"
CONSTANT TauTime = "1/1000000000"
SPECIFICATION Spec
CHECK_DEADLOCK FALSE
INVARIANT Done
POSTCONDITION AllConsumed
