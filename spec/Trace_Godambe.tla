--------------------------- MODULE Trace_Godambe ---------------------------
(***************************************************************************)
(* Trace validation for module Godambe (C19).  One record = one call of a  *)
(* real dadi.Godambe function (or one call history) with exact inputs and  *)
(* the raw result.                                                         *)
(*                                                                         *)
(*  hess / grad : get_hess / get_grad on f(x) = x'Qx/2 + b'x + c; the      *)
(*                result must be the documented stencil applied to the     *)
(*                exact function, up to TauFD * |f| / (h_i h_j) (float     *)
(*                evaluation of f at the stencil points).                  *)
(*  fim gim lrt wald score : statistics of a linear Poisson model against  *)
(*                their closed forms, within the O(eps^2) truncation bound *)
(*                of the central stencils propagated through the matrix    *)
(*                algebra (module Godambe, Err* operators).                *)
(*  perm        : the same statistic for two orders of the bootstrap list. *)
(*  chi2        : sum_chi2_ppf, scalar and array input.                    *)
(*  history     : a sequence of calls sharing the module-level cache.      *)
(*  callseq     : calls on ONE model function object whose consecutive     *)
(*                arguments differ in exactly one of grid_pts, p0, ns,     *)
(*                data, multinom, log, eps: each judged as a fresh call.   *)
(*  godambe     : get_godambe called directly (G, H, J, mean score).       *)
(*  screen      : asks only for which statistics the closed-form           *)
(*                comparison is decidable for the case (perturbation small *)
(*                enough for the first-order bounds, bound <= 1/4 of the   *)
(*                value); the driver drops the others before the real run. *)
(***************************************************************************)
EXTENDS Godambe, Json, IOUtils
CONSTANTS TauFD,      \* float evaluation of the differenced function: relative to the magnitude of its terms
          TauRel,     \* relative tolerance for quantities computed without cancellation
          TauChi      \* absolute tolerance on probabilities

Trace == JsonDeserialize(IOEnv.TRACE_FILE)
VARIABLE i
F(name, ok) == IF ok THEN {} ELSE {name}
Raised(r) == "raised" \in DOMAIN r.out
Within(got, exact, bound) == IsNum(got) /\ RLeq(RAbs(RSub(got, exact)), bound)
AllNum(v) == \A k \in 1..Len(v) : IsNum(v[k])
MatShape(M, n) == Len(M) = n /\ \A a \in 1..n : Len(M[a]) = n
MatWithin(M, X, E, slack) == \A a \in 1..Len(X) : \A b \in 1..Len(X) :
                                Within(M[a][b], X[a][b], RAdd(E[a][b], RMul(slack, RAbs(X[a][b]))))

\* ---------------------------------------------------------------- stencils
Fn(r) == [Q |-> r.in.Q, b |-> r.in.b, c |-> r.in.c]
\* "one" ranges over the admissible sidedness choices: the documented rule, and for a parameter within rounding of the
\* threshold p*eps = 1e-6 either stencil (Godambe!SidedChoices) - one choice for the whole result
FHess(r) ==
    IF Raised(r) THEN {"Raised"} ELSE
    LET f == Fn(r) p == r.in.p eps == r.in.eps n == Len(p)
        H == r.out.H
        Matches(one) == LET h == StepsWith(p, eps, one)
                            exact == HessFDWith(LAMBDA x : QEval(f, x), p, eps, one)
                            mag == RMul(TauFD, QMag(f, p, h))
                        IN  \A a, b \in 1..n : Within(H[a][b], exact[a][b], RDiv(mag, RMul(h[a], h[b])))
    IN  F("HessShape", MatShape(H, n)) \cup
        (IF MatShape(H, n)
         THEN F("HessStencil", \E one \in SidedChoices(p, eps) : Matches(one)) \cup
              F("HessExactOnQuadratic", \A one \in SidedChoices(p, eps) : HessFDWith(LAMBDA x : QEval(f, x), p, eps, one) = f.Q)
         ELSE {})
FGrad(r) ==
    IF Raised(r) THEN {"Raised"} ELSE
    LET f == Fn(r) p == r.in.p eps == r.in.eps n == Len(p)
        g == r.out.g
        Exact(one) == GradFDWith(LAMBDA x : QEval(f, x), p, eps, one)
        Matches(one) == LET h == StepsWith(p, eps, one)
                            exact == Exact(one)
                            mag == RMul(TauFD, QMag(f, p, h))
                        IN  \A a \in 1..n : Within(g[a], exact[a], RDiv(mag, h[a]))
    IN  F("GradShape", Len(g) = n) \cup
        (IF Len(g) = n
         THEN F("GradStencil", \E one \in SidedChoices(p, eps) : Matches(one)) \cup
              F("GradExactCentral", \A one \in SidedChoices(p, eps) : \A a \in 1..n : ~one[a] => Exact(one)[a] = QGrad(f, p)[a]) \cup
              F("GradExactLinear", QIsLinear(f) => \A one \in SidedChoices(p, eps) : Exact(one) = f.b)
         ELSE {})

\* ---------------------------------------------------------------- closed forms with bounds
\* x = the "in" part of a record: [md, d, eps, boots, adj, nested, full]
\*     optional: folded (BOOLEAN: data and bootstraps are folded spectra, the model function returns unfolded ones),
\*               blive (per bootstrap: which entries carry likelihood - a bootstrap has its own mask)
IsFolded(x) == "folded" \in DOMAIN x /\ x.folded
\* folded data are compared with the folded model (Godambe!FoldModel)
Norm(x)   == IF IsFolded(x) THEN [x EXCEPT !.md = FoldModel(x.md)] ELSE x
Theta(x)  == IF x.md.multinom THEN ThetaFit(x.md, x.d) ELSE "1"
AllIdx(x) == [a \in 1..NPar(x.md) |-> a]
\* the design restricted to the entries bootstrap k carries (unmasked in the model and in that bootstrap; the mask of the
\* data plays no role for a bootstrap)
BootDs(ds, x, k) == IF "blive" \in DOMAIN x
                    THEN [ds EXCEPT !.live = {j \in 1..Len(x.blive[k]) : x.blive[k][j] /\ (IsFolded(x) => j \in LowerHalf(Len(x.blive[k])))}]
                    ELSE ds
\* everything the statistics need, for the parameter subset idx (1-based positions in the full vector q)
CF(x, idx) ==
    LET ds == Design(x.md, Theta(x)) eps == x.eps
        nb == Len(x.boots)
        gs == TLCEval([k \in 1..nb |-> VSubIdx(ScoreVec(BootDs(ds, x, k), x.boots[k], x.adj[k]), idx)])
        es == TLCEval([k \in 1..nb |-> VSubIdx(ErrScore(BootDs(ds, x, k), x.boots[k], x.adj[k], eps, TauFD), idx)])
    IN  [H  |-> MSub(InfoMat(ds, x.d), idx), EH |-> MSub(ErrInfo(ds, x.d, eps, TauFD), idx),
         J  |-> IF nb = 0 THEN <<>> ELSE MeanOf(TLCEval([k \in 1..nb |-> Outer(gs[k], gs[k])])),
         EJ |-> IF nb = 0 THEN <<>> ELSE ErrJ(gs, es),
         cU |-> IF nb = 0 THEN <<>> ELSE MeanOf(TLCEval([k \in 1..nb |-> <<gs[k]>>]))[1],
         EcU |-> IF nb = 0 THEN <<>> ELSE MeanOf(TLCEval([k \in 1..nb |-> <<es[k]>>]))[1],
         \* O(eps^2) needs the central stencil with the fractional step: the documented rule, and on the threshold itself
         \* (product within rounding of 1e-6, "not smaller than 1e-6" in double precision) as well
         central |-> \A a \in 1..Len(idx) : ~OneSided(ds.q[idx[a]], eps) \/ NearTie(ds.q[idx[a]], eps),
         q |-> ds.q]
Diag(M) == [a \in 1..Len(M) |-> M[a][a]]
\* a bound is informative when it is at most a quarter of the quantity it bounds
Sharp(v, e)    == RLeq(RMul("4", e), RAbs(v))
SharpVec(v, e) == \A a \in 1..Len(v) : Sharp(v[a], e[a])
\* expected values with bounds; dec = the first-order bounds are valid for this case
ExpFIM(x) == LET c == CF(x, AllIdx(x)) dec == c.central /\ InvResolvable(c.H, c.EH) IN
             IF ~dec THEN [dec |-> FALSE]
             ELSE LET V == Diag(MInv(c.H)) EV == Diag(ErrInv(c.H, c.EH)) IN
                  [dec |-> SharpVec(V, EV), n |-> Len(c.H), H |-> c.H, EH |-> c.EH, V |-> V, EV |-> EV]
GOf(c) == LET Ji == MInv(c.J) EJi == ErrInv(c.J, c.EJ)
              X1 == MMul(c.H, Ji) E1 == ErrProd(c.H, c.EH, Ji, EJi)
          IN  [G |-> MMul(X1, c.H), EG |-> ErrProd(X1, E1, c.H, c.EH)]
\* uncertainties from the Godambe matrix: G^-1 = H^-1 J H^-1 (no inverse of J needed for the variances)
ExpGIM(x) == LET c == CF(x, AllIdx(x)) dec0 == c.central /\ InvResolvable(c.H, c.EH) /\ InvResolvable(c.J, c.EJ) IN
             IF ~dec0 THEN [dec |-> FALSE]
             ELSE LET g == GOf(c)
                      Hi == MInv(c.H) EHi == ErrInv(c.H, c.EH)
                      X2 == MMul(Hi, c.J) E2 == ErrProd(Hi, EHi, c.J, c.EJ)
                      V == Diag(MMul(X2, Hi)) EV == Diag(ErrProd(X2, E2, Hi, EHi))
                  IN  [dec |-> SharpVec(V, EV), n |-> Len(c.H), H |-> c.H, EH |-> c.EH, G |-> g.G, EG |-> g.EG, V |-> V, EV |-> EV,
                       J |-> c.J, EJ |-> c.EJ, cU |-> c.cU, EcU |-> c.EcU]
ExpLRT(x) == LET c == CF(x, x.nested) dec0 == c.central /\ InvResolvable(c.H, c.EH) IN
             IF ~dec0 THEN [dec |-> FALSE]
             ELSE LET Hi == MInv(c.H) EHi == ErrInv(c.H, c.EH)
                      T == MTrace(MMul(c.J, Hi)) ET == MTrace(ErrProd(c.J, c.EJ, Hi, EHi))
                      k == RInt(Len(x.nested))
                  IN  IF RIsZero(T) \/ ~RLeq(RMul("5", ET), RAbs(T)) THEN [dec |-> FALSE]
                      ELSE [dec |-> TRUE, v |-> RDiv(k, T), e |-> RDiv(RMul(k, ET), RMul(RAbs(T), RSub(RAbs(T), ET)))]
ExpWald(x) == LET c == CF(x, x.nested) dec0 == c.central /\ InvResolvable(c.H, c.EH) /\ InvResolvable(c.J, c.EJ) IN
              IF ~dec0 THEN [dec |-> FALSE]
              ELSE LET g == GOf(c)
                       dl == [a \in 1..Len(x.nested) |-> RSub(x.full[a], c.q[x.nested[a]])]
                       da == VAbs(dl)
                       adj == Quad(dl, g.G, dl) eadj == RAdd(Quad(da, g.EG, da), RMul(TauRel, Quad(da, MAbs(g.G), da)))
                       org == Quad(dl, c.H, dl) eorg == RAdd(Quad(da, c.EH, da), RMul(TauRel, Quad(da, MAbs(c.H), da)))
                   IN  [dec |-> Sharp(adj, eadj) /\ Sharp(org, eorg), adj |-> adj, eadj |-> eadj, org |-> org, eorg |-> eorg]
ExpScore(x) == LET c == CF(x, x.nested) dec0 == c.central /\ InvResolvable(c.H, c.EH) /\ InvResolvable(c.J, c.EJ) IN
               IF ~dec0 THEN [dec |-> FALSE]
               ELSE LET Ji == MInv(c.J) EJi == ErrInv(c.J, c.EJ) Hi == MInv(c.H) EHi == ErrInv(c.H, c.EH)
                        ua == VAbs(c.cU)
                        adj == Quad(c.cU, Ji, c.cU) eadj == RAdd(ErrQuad(c.cU, c.EcU, Ji, EJi), RMul(TauRel, Quad(ua, MAbs(Ji), ua)))
                        org == Quad(c.cU, Hi, c.cU) eorg == RAdd(ErrQuad(c.cU, c.EcU, Hi, EHi), RMul(TauRel, Quad(ua, MAbs(Hi), ua)))
                    IN  [dec |-> Sharp(adj, eadj) /\ Sharp(org, eorg), adj |-> adj, eadj |-> eadj, org |-> org, eorg |-> eorg]
Expected(op, x0) == LET x == Norm(x0) IN
                    CASE op = "fim" -> ExpFIM(x) [] op \in {"gim", "godambe"} -> ExpGIM(x) [] op = "lrt" -> ExpLRT(x)
                      [] op = "wald" -> ExpWald(x) [] op = "score" -> ExpScore(x)

\* observed standard deviations u against variances v with bound e:  |u^2 - v| <= e + TauRel |v|,  u >= 0;
\* where the closed-form variance is negative (information matrix not positive definite) the root is undefined: "nan"
SdOK(u, v, e) == Len(u) = Len(v) /\ \A a \in 1..Len(v) :
                    IF ~RPos(v[a]) THEN u[a] = "nan"       \* (decidable cases have |v| >= 4 e, so the sign of v is certain)
                    ELSE IsNum(u[a]) /\ RNonNeg(u[a]) /\ Within(RSq(u[a]), v[a], RAdd(e[a], RMul(TauRel, RAbs(v[a]))))
\* comparison of an observed result (o = the "out" part) with an expected value e
Cmp(op, o, e) ==
    CASE op = "fim" ->
           F("FIMShape", MatShape(o.H, e.n) /\ Len(o.u) = e.n) \cup
           (IF MatShape(o.H, e.n) /\ Len(o.u) = e.n
            THEN F("FIMHessian", MatWithin(o.H, e.H, e.EH, TauRel)) \cup F("FIMUncert", SdOK(o.u, e.V, e.EV)) ELSE {})
      [] op = "gim" ->
           F("GIMShape", MatShape(o.H, e.n) /\ MatShape(o.G, e.n) /\ Len(o.u) = e.n) \cup
           (IF MatShape(o.H, e.n) /\ MatShape(o.G, e.n) /\ Len(o.u) = e.n
            THEN F("GIMHessian", MatWithin(o.H, e.H, e.EH, TauRel)) \cup F("GIMMatrix", MatWithin(o.G, e.G, e.EG, TauRel)) \cup
                 F("GIMUncert", SdOK(o.u, e.V, e.EV)) ELSE {})
      [] op = "godambe" ->      \* get_godambe called directly: (Godambe matrix, Hessian, J, mean score)
           F("GodambeShape", MatShape(o.H, e.n) /\ MatShape(o.G, e.n) /\ MatShape(o.J, e.n) /\ Len(o.cU) = e.n) \cup
           (IF MatShape(o.H, e.n) /\ MatShape(o.G, e.n) /\ MatShape(o.J, e.n) /\ Len(o.cU) = e.n
            THEN F("GodambeHessian", MatWithin(o.H, e.H, e.EH, TauRel)) \cup F("GodambeMatrix", MatWithin(o.G, e.G, e.EG, TauRel)) \cup
                 F("GodambeJ", MatWithin(o.J, e.J, e.EJ, TauRel)) \cup
                 F("GodambeMeanScore", \A a \in 1..e.n : Within(o.cU[a], e.cU[a], RAdd(e.EcU[a], RMul(TauRel, RAbs(e.cU[a]))))) ELSE {})
      [] op = "lrt"   -> F("LRTAdjust", Within(o.v, e.v, RAdd(e.e, RMul(TauRel, RAbs(e.v)))))
      [] op = "wald"  -> F("WaldAdjusted", Within(o.adj, e.adj, e.eadj)) \cup F("WaldOriginal", Within(o.org, e.org, e.eorg))
      [] op = "score" -> F("ScoreAdjusted", Within(o.adj, e.adj, e.eadj)) \cup F("ScoreOriginal", Within(o.org, e.org, e.eorg))
Need(r, ok) == Assert(ok, <<"closed-form comparison not decidable for record (screening missed it)", r.id>>)
\* nested_indices is documented as a list of positions; given as a tuple (in.forms[3] = "tuple") numpy reads it as a
\* multi-dimensional index and the call is refused: accepted (the statement does not promise tuples), a value must be right
TupleNested(r) == "forms" \in DOMAIN r.in /\ Len(r.in.forms) >= 3 /\ r.in.forms[3] = "tuple"
FStat(r) == IF Raised(r) THEN (IF TupleNested(r) THEN {} ELSE {"Raised"})
            ELSE LET e == Expected(r.op, r.in) IN IF Need(r, e.dec) THEN Cmp(r.op, r.out, e) ELSE {}
\* screening record: which of the five statistics can be decided for this case
FScreen(r) == UNION {F("Undecidable_" \o op, Expected(op, r.in).dec) : op \in {o \in {"fim", "gim", "godambe", "lrt", "wald", "score"} : \E j \in 1..Len(r.in.ops) : r.in.ops[j] = o}}

\* the same statistic for two orders of the bootstrap list (flattened numbers): only summation round-off may differ
MaxAbsSeq(v) == RSeqMaxAbs(v)
FPerm(r) ==
    IF Raised(r) THEN {"Raised"} ELSE
    LET a == r.out.a b == r.out.b IN
    F("BootstrapOrder", Len(a) = Len(b) /\ AllNum(a) /\ AllNum(b) /\
          \A k \in 1..Len(a) : Within(b[k], a[k], RMul("1/100000000", MaxAbsSeq(a))))

\* ---------------------------------------------------------------- chi-square mixture
FChi2(r) ==
    IF Raised(r) THEN {"Chi2Accepted"} ELSE
    LET x == r.in.x w == r.in.w IN
    F("Chi2ShapeRule", r.out.kind = (IF r.in.scalar THEN "scalar" ELSE "array") /\ Len(r.out.v) = Len(x)) \cup
    (IF Len(r.out.v) = Len(x)
     THEN F("Chi2Value", \A k \in 1..Len(x) : Within(r.out.v[k], Chi2MixTail(x[k], w, r.tab.cdf[k]), TauChi))
     ELSE {})

\* ---------------------------------------------------------------- call histories over the shared cache
\* Step k is one call of a Godambe function with the model steps[k].who; its model function object is a named
\* function (address 1 / 2) or a transient object created for the call; the function the cache sees (the model itself,
\* or the closure a Godambe function wraps around it) is represented by that object.  Under the specified key
\* discipline (Godambe!Reclaimable with keyHoldsRef) a cached object is never reclaimed, so a transient object gets an
\* address no cached object occupies.
StepObj(r, cache, k) ==
    LET s == r.in.steps[k]
        used == {key[1] : key \in DOMAIN cache}
    IN  IF ~s.transient THEN [addr |-> IF s.who = "A" THEN 1 ELSE 2, model |-> s.who]
        ELSE [addr |-> CHOOSE a \in 3..(3 + Len(r.in.steps)) : a \notin used, model |-> s.who]
RECURSIVE ServedSeq(_, _, _)
ServedSeq(r, cache, k) ==
    IF k > Len(r.in.steps) THEN <<>>
    ELSE LET o == StepObj(r, cache, k) pt == r.in.steps[k].fn IN
         <<Served(cache, o, pt)[1]>> \o ServedSeq(r, CachePut(cache, o, pt), k + 1)
HistIn(r, who) == [md |-> r.in.models[who], d |-> r.in.d, eps |-> r.in.eps, boots |-> r.in.boots, adj |-> r.in.adj,
                   nested |-> r.in.nested, full |-> r.in.full]
StatFns == {"fim", "gim", "lrt", "wald", "score"}
FHistory(r) ==
    IF Raised(r) THEN {"Raised"} ELSE
    LET n == Len(r.in.steps)
        served == ServedSeq(r, <<>>, 1)
        \* closed forms once per (model, function) of the history
        exp == TLCEval([w \in {"A", "B"} |-> TLCEval([fn \in StatFns |->
                          IF \E k \in 1..n : served[k] = w /\ r.in.steps[k].fn = fn THEN Expected(fn, HistIn(r, w)) ELSE [dec |-> TRUE]])])
    IN  F("HistoryFunctions", \A k \in 1..n : r.in.steps[k].fn \in StatFns) \cup
        F("HistoryLength", Len(r.out.res) = n /\ Len(r.out.fresh) = n) \cup
        (IF Len(r.out.res) = n /\ Len(r.out.fresh) = n
         THEN F("ServedOwnModel", \A k \in 1..n :
                    LET fn == r.in.steps[k].fn e == exp[served[k]][fn] IN
                    Need(r, e.dec) /\ Cmp(fn, r.out.res[k], e) = {}) \cup
              F("HistoryIndependent", \A k \in 1..n :
                    LET a == r.out.flat[k] b == r.out.freshflat[k] IN
                    Len(a) = Len(b) /\ AllNum(a) /\ AllNum(b) /\
                    \A j \in 1..Len(a) : Within(a[j], b[j], RMul("1/1000000000", RAbs(b[j]))))
         ELSE {})

\* ---------------------------------------------------------------- call sequences on one model function object
\* One model function object M(params, ns, grid_pts), linear in params for every (ns, grid_pts) - in.table lists its
\* components per (ns, grid_pts).  Step k is a real call (fn, inputs x, log, sample size ns, grid pts); consecutive steps
\* differ in exactly one argument.  "persistent": the call hands M itself to the cache (get_godambe called directly,
\* FIM_uncert / GIM_uncert with multinom=False); otherwise M is wrapped in a function object created for the call.
\* The cache machine of module Godambe with the specified key (function object and the FULL point <<params, ns, grid_pts>>)
\* says which (model, point) each call is served; the statistic must be the closed form of the model evaluated at the
\* served sample size and grid - under the specified key always the call's own: every call is judged as a fresh call.
SeqObj(s, cache, n) ==
    IF s.persistent THEN [addr |-> 1, model |-> "M"]
    ELSE [addr |-> CHOOSE a \in 2..(2 + n) : a \notin {key[1] : key \in DOMAIN cache}, model |-> "M"]
SeqPt(s) == <<s.x.md.p, s.ns, s.pts>>
RECURSIVE SeqServed(_, _, _)
SeqServed(r, cache, k) ==
    IF k > Len(r.in.steps) THEN <<>>
    ELSE LET s == r.in.steps[k] o == SeqObj(s, cache, Len(r.in.steps)) pt == SeqPt(s) IN
         <<ServedK(cache, o, pt, KeyPartsFull)>> \o SeqServed(r, CachePutK(cache, o, pt, KeyPartsFull), k + 1)
\* the inputs of step s with the model as evaluated at the served point
SeqIn(r, s, sv) ==
    LET T == CHOOSE t \in {r.in.table[j] : j \in 1..Len(r.in.table)} : t.ns = sv[2][2] /\ t.pts = sv[2][3] IN
    [s.x EXCEPT !.md = [B0 |-> T.B0, B |-> T.B, p |-> sv[2][1], multinom |-> s.x.md.multinom, live |-> s.x.md.live]]
SeqFns == {"fim", "gim", "godambe", "lrt"}
FSeq(r) ==
    IF Raised(r) THEN {"Raised"} ELSE
    LET n == Len(r.in.steps)
        served == SeqServed(r, <<>>, 1)
    IN  F("SeqFunctions", \A k \in 1..n : r.in.steps[k].fn \in SeqFns) \cup
        F("SeqLength", Len(r.out.res) = n /\ Len(r.out.fresh) = n) \cup
        (IF Len(r.out.res) = n /\ Len(r.out.fresh) = n
         THEN F("SeqOwnArguments", \A k \in 1..n :
                    LET s == r.in.steps[k] IN
                    \* derivatives in log parameters have no closed form here: those steps are judged by history independence only
                    s.log \/ (LET e == Expected(s.fn, SeqIn(r, s, served[k])) IN Need(r, e.dec) /\ Cmp(s.fn, r.out.res[k], e) = {})) \cup
              F("SeqHistoryIndependent", \A k \in 1..n :
                    LET a == r.out.flat[k] b == r.out.freshflat[k] IN
                    \* (the same token - an undefined root "nan" in both - is agreement too)
                    Len(a) = Len(b) /\ \A j \in 1..Len(a) : a[j] = b[j] \/ (IsNum(a[j]) /\ IsNum(b[j]) /\ Within(a[j], b[j], RMul("1/1000000000", RAbs(b[j])))))
         ELSE {})

Failed(r) ==
    CASE r.op = "hess"    -> FHess(r)
      [] r.op = "grad"    -> FGrad(r)
      [] r.op \in {"fim", "gim", "godambe", "lrt", "wald", "score"} -> FStat(r)
      [] r.op = "screen"  -> FScreen(r)
      [] r.op = "perm"    -> FPerm(r)
      [] r.op = "chi2"    -> FChi2(r)
      [] r.op = "history" -> FHistory(r)
      [] r.op = "callseq" -> FSeq(r)
      [] OTHER            -> {"UnknownOp"}

Init == i = 0
Next == /\ i < Len(Trace)
        /\ i' = i + 1
        /\ LET r == Trace[i + 1] f == Failed(r) IN IF f = {} THEN TRUE ELSE PrintT(<<"BAD", r.id, f>>)
Spec == Init /\ [][Next]_i
Done == (i = Len(Trace)) => PrintT(<<"DONE", i>>)
AllConsumed == TLCGet("stats").diameter - 1 = Len(Trace)
=============================================================================
